#!/bin/sh
# Nothing is compiled; only confirm the tools the checks need are present.
set -e
command -v tlc >/dev/null
test -x /venv/bin/python
/venv/bin/python -c "import twisted, zope.interface, automat"
echo "setup ok"
