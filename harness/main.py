"""./check entry point: dispatch a property id to the module that decides it."""
import argparse
import importlib
import os
import sys

HERE = os.path.dirname(os.path.abspath(__file__))
sys.path.insert(0, HERE)

MODULES = {
    "C01": "p_cc", "C02": "p_cc", "C03": "p_cc",
    "C05": "p_socks", "C06": "p_socksreq", "C12": "p_kv", "C13": "p_kv", "C20": "p_am", "C07": "p_tsm", "C08": "p_tsm", "C09": "p_att", "C10": "p_cfg", "C11": "p_cfg", "C15": "p_ou", "C14": "p_oa", "C17": "p_ol", "C16": "p_cons", "C18": "p_sp", "C19": "p_la", "C04": "p_au",
}


def main():
    ap = argparse.ArgumentParser()
    ap.add_argument("pid")
    ap.add_argument("--tier", default=os.environ.get("VERIF_TIER", "quick"))
    ap.add_argument("--replay")
    a = ap.parse_args()
    seed = int(os.environ.get("VERIF_SEED", "1") or 1) % (2 ** 31)
    if a.pid not in MODULES:
        print("no check for %s" % a.pid)
        return 2
    # every temporary file or directory of this run - the harness's own, TLC's, and what the code under test makes
    # (launch()'s data directories, onion service directories) - lives in one scratch directory removed at exit
    import tempfile
    import tlc
    tempfile.tempdir = tlc.scratch()
    mod = importlib.import_module(MODULES[a.pid])
    if a.replay:
        return mod.replay(a.pid, a.replay)
    return mod.run(a.pid, a.tier, seed)


if __name__ == "__main__":
    sys.exit(main())
