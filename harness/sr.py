"""C06: record the bytes the real SOCKS client sends for a target, before and
after the server selects 'no authentication' (single-step vectors decided by
spec/SocksReqTrace.tla)."""
import ipaddress
import os
import sys

REPO = os.environ.get("VERIF_REPO", "/repo")
sys.path.insert(0, REPO)

from twisted.internet import error                     # noqa: E402
from twisted.python import failure                     # noqa: E402

import sk                                              # noqa: E402  (fake endpoint, app factory, log sink)
from txtorcon import socks                             # noqa: E402


SELECT = {"ok": [b"\x05\x00"], "split": [b"\x05", b"\x00"], "m2": [b"\x05\x02"], "m2split": [b"\x05", b"\x02"],
          "none": [b"\x05\xff"], "badver": [b"\x04\x00"], "m1": [b"\x05\x01"],
          # a refusal, and then - before the connection is gone - two bytes that look like a selection of 'no authentication'
          "none_ok": [b"\x05\xff", b"\x05\x00"], "badver_ok": [b"\x04\x00", b"\x05\x00"], "m1_ok": [b"\x05\x01", b"\x05\x00"]}


class SyncReplyTransport(sk.proto_helpers.StringTransport):
    """an in-memory peer that answers the greeting from inside the client's write() call (a schedule a
    real reactor does not produce, but in-memory transports and tests do)"""
    answered = False

    def write(self, data):
        sk.proto_helpers.StringTransport.write(self, data)
        if not self.answered and self.value() == b"\x05\x01\x00":
            self.answered = True
            self.proto.dataReceived(b"\x05\x00")


class HelloApp(sk.protocol.Protocol):
    """an application protocol that speaks first (as TLS or an HTTP client does)"""
    def connectionMade(self):
        self.transport.write(b"APPHELLO")


class HelloFactory(sk.protocol.Factory):
    protocol = HelloApp


REPLY_OK = b"\x05\x00\x00\x01\x01\x02\x03\x04\x00\x50"


def vector(req, kind, host, port, sel="ok", tls=False, beside=""):
    """run one request through the public entry point and record what was written: before the server's
    method selection (first), after a partial selection message (mid), after the whole of it (second)"""
    ep = sk.FakeProxyEndpoint()
    if sel == "sync":
        ep.transport_factory = SyncReplyTransport
    fired = []
    err = False
    try:
        if req == "CONNECT":
            d = socks.TorSocksEndpoint(ep, host, port, tls=tls).connect(HelloFactory() if sel == "coalesced" else sk.AppFactory())
        elif req == "RESOLVE":
            d = socks.resolve(ep, host)
        else:
            d = socks.resolve_ptr(ep, host)
        d.addBoth(fired.append)
        if beside:
            # meanwhile another part of the application turns to the same host: a connection to another of its ports, or
            # a look-up of it, is started before the proxy has answered anything on ours
            ep2 = sk.FakeProxyEndpoint()
            if beside == "connect":
                d2 = socks.TorSocksEndpoint(ep2, host, 65535 - port if port != 32767 else 1).connect(sk.AppFactory())
            elif beside == "resolve":
                d2 = socks.resolve(ep2, host)
            else:
                d2 = socks.resolve_ptr(ep2, host)
            d2.addErrback(lambda f: None)
    except Exception:
        err = True
    first = b""
    second = b""
    mid = b""
    if ep.proto is not None:
        first = ep.tr.value()
        if sel == "sync":
            # the selection was delivered during the greeting's write: greeting and request are already out
            first, second_sync = first[:3], first[3:]
            ep.tr.clear()
            ep.tr.write = lambda data, tr=ep.tr: sk.proto_helpers.StringTransport.write(tr, data)
            sk.proto_helpers.StringTransport.write(ep.tr, first)
        chunks = SELECT.get(sel, [])
        if sel == "coalesced":
            # the selection and the (successful) answer to the request arrive in one segment; the application
            # protocol writes as soon as it is connected: its bytes come after the request, never before
            chunks = [b"\x05\x00" + REPLY_OK]
        if sel in ("lost_ok", "losthalf_ok"):
            # the connection is lost before the server has selected anything (or inside its selection message); what
            # then still turns up looking like a selection of 'no authentication' selects nothing: the attempt has failed
            try:
                if sel == "losthalf_ok":
                    ep.proto.dataReceived(b"\x05")
                ep.proto.connectionLost(failure.Failure(error.ConnectionLost("before the selection")))
            except BaseException:
                err = True
            try:
                ep.proto.dataReceived(b"\x00" if sel == "losthalf_ok" else b"\x05\x00")
            except BaseException:
                pass          # late bytes may well be refused loudly; what counts is what was written
            chunks = []
        try:
            for i, c in enumerate(chunks):
                ep.proto.dataReceived(c)
                if i < len(chunks) - 1:
                    mid = ep.tr.value()[len(first):]
        except BaseException:
            err = True
            ep.proto.connectionLost(failure.Failure(error.ConnectionLost("after exception")))
        second = ep.tr.value()[len(first):]
        if sel == "coalesced" and second.endswith(b"APPHELLO"):
            second = second[:-8]
        if sel == "sync":
            second = second_sync + second
    if fired and isinstance(fired[0], failure.Failure):
        err = True
    name = host.encode("utf-8") if isinstance(host, str) else bytes(host)
    addr = b""
    if kind in ("v4", "v6"):
        addr = ipaddress.ip_address(host).packed
    return dict(req=req, kind=kind, name=list(name), addr=list(addr), port=port if req == "CONNECT" else 0,
                first=list(first), mid=list(mid), second=list(second), err=err, host=(host if isinstance(host, str) else host.decode("latin-1")), hostbytes=not isinstance(host, str),
                sel=sel, tls=bool(tls), beside=beside)
