"""C01, C02, C03: the control connection (spec/ControlConn*.tla)."""
import json
import random

import tlc
import common
import pipeline
import cc

ASSUME = [
    "every fifth plain command is a multi-line '+' command whose text already contains its final '.' line and CR LF: it is written "
    "verbatim plus CR LF like any other",
    "the two event kinds of the model go over the wire as EVA / EVB, as STREAM / STREAM_BW or as CIRC_MINOR / CIRC (every other "
    "execution uses a pair of Tor's names of which one is the beginning of the other)",
    "liveness (C01, C03 design checks ControlConn_Live_*): under weak fairness of Tor's own steps - it goes on sending the lines of what "
    "it has begun and answers the command that is written - every command ever submitted is eventually resolved and the queue drains "
    "again and again (TLC, small constants; the historic stuck-queue mechanism must yield a counterexample); this is a property of the "
    "specified mechanism - executions are finite, so conformance of the code is checked step by step only",
    "in every third execution the caller of a plain command attaches its callbacks only after the line that completes the reply has "
    "been processed (submit first, look at the outcome later)",
    "Twisted's LineOnlyReceiver splits the byte stream into lines; the model is line-level and the harness "
    "multiplies every script by byte segmentations (whole, byte-at-a-time, single cuts incl. between CR and LF, "
    "next-line prefix delivered early, whole reply coalesced, random)",
    "Tor never interleaves an event inside a reply and replies only to a command it has received (environment)",
    "text is abstracted by per-line tokens; harness lines are 't<n>' with look-alike data lines ('250 t7', '650 EVA t7', '250-t7', ...)",
    "the protocol instance is bootstrapped with the real NULL-authentication dialogue before the script starts",
]

SEGS_QUICK = [("whole",), ("bytes",), ("crlf",), ("cut", 3), ("cut", 5), ("early",), ("run",), ("rand",)]

MC = {
    ("C01", "quick"): ["MC_C01_quick", "MC_C01_reent", "Live_quick"],
    ("C01", "thorough"): ["MC_C01_quick", "MC_C01_reent", "Live_quick", "MC_C01_thorough"],
    ("C02", "quick"): ["MC_C02_quick", "MC_C02_other", "MC_C02_adder", "MC_C02_killer", "MC_C02_empty"],
    ("C02", "thorough"): ["MC_C02_quick", "MC_C02_other", "MC_C02_adder", "MC_C02_killer", "MC_C02_empty", "MC_C02_names", "MC_C02_thorough"],
    ("C03", "quick"): ["MC_C03_quick", "MC_C03_closer", "Live_closer"],
    ("C03", "thorough"): ["MC_C03_quick", "MC_C03_closer", "Live_closer", "MC_C03_thorough"],
}
DEVS = {"C01": [], "C02": ["Dev_c02_cb_leak", "Dev_c02_skip"], "C03": ["Dev_c03_stuck", "Live_stuck"]}
PROBES = {"C01": [], "C02": ["Probe_ProbeEventDuringCb", "Probe_ProbeSelfRemoval"], "C03": ["Probe_ProbeLossMidBlock"]}


def nontrivial(pid, script):
    acts = [e["a"] for e in script]
    if pid == "C01":
        return acts.count("BeginReply") >= 2
    if pid == "C02":
        return "BeginEvent" in acts and "AddL" in acts
    return "Lose" in acts


def scripts_for(pid, tier, seed, rep):
    rng = random.Random(seed)
    n_sim = 250 if tier == "quick" else 2500
    n_rand = 250 if tier == "quick" else 3000
    depth = 40 if tier == "quick" else 60
    hists, out, wall = tlc.simulate("ControlConn_Gen", "ControlConn_Gen_%s.cfg" % pid, n_sim, depth, seed)
    if not hists:
        rep.broken.append("TLC generated no behaviours:\n" + out[-1000:])
    rep.cov["tlc_generated_behaviours"] = len(hists)
    scripts = [("tlc", h) for h in hists]
    for i in range(n_rand):
        ln = rng.choice([20, 40, 80, 200]) if tier == "thorough" else rng.choice([20, 40, 80])
        # C01 is about commands and replies; every other of its random scripts also has events and listeners around them
        scripts.append(("random", cc.random_script(rng, ln, lose=(pid == "C03"), events=(pid != "C01" or i % 2 == 1))))
    if pid in ("C01", "C03"):
        # the caller of a queued command gives up on it; the commands behind it go out and are answered all the same
        for which in (1, 2, 3):
            sc = [dict(a="Submit", k="plain"), dict(a="Submit", k="plain"), dict(a="Submit", k="plain"), dict(a="Submit", k="cb"),
                  dict(a="GiveUp", c=which)]
            for cls in ("2", "2", "5", "2"):
                sc += [dict(a="BeginReply", cls=cls, sh=["s"]), dict(a="Line")]
            if pid == "C03":
                sc = sc[:7] + [dict(a="Lose", clean=False, local=False), dict(a="Submit", k="plain")]
            scripts.append(("giveup", [dict(x) for x in sc]))
    if pid == "C02":
        # the caller of the command in flight (or of a queued one) gives up on it, and an event arrives before Tor's reply
        for which in (2, 3):
            for shape in (["s"], ["m", "sOK"], ["p", "d", ".", "sOK"]):
                sc = [dict(a="AddL", l="ok1", n="EVA"), dict(a="BeginReply", cls="2", sh=["sOK"]), dict(a="Line"),
                      dict(a="Submit", k="plain"), dict(a="Submit", k="plain"), dict(a="Submit", k="cb"),
                      dict(a="GiveUp", c=which), dict(a="BeginEvent", n="EVA", sh=shape)] + [dict(a="Line")] * len(shape)
                for cls in ("2", "5", "2"):
                    sc += [dict(a="BeginReply", cls=cls, sh=["s"]), dict(a="Line")]
                sc += [dict(a="BeginEvent", n="EVA", sh=["s"]), dict(a="Line")]
                scripts.append(("giveup", [dict(x) for x in sc]))
    if pid in ("C01", "C03"):
        # a command text outside ASCII among ordinary ones, then (C03) the connection is lost with everything unanswered
        for clean in (False, True):
            for k in (1, 2):
                pre = [dict(a="Submit", k="plain")] * k + [dict(a="Submit", k="na"), dict(a="Submit", k="plain"), dict(a="Submit", k="cb")]
                tail = [dict(a="Lose", clean=clean, local=False), dict(a="Submit", k="plain")] if pid == "C03" else []
                scripts.append(("nonascii", [dict(x) for x in pre + tail]))
    if pid == "C03":
        # crash points: loss injected at every step of a base script and at byte offsets of the pending line
        base = [s for src, s in scripts if src == "tlc"][: (6 if tier == "quick" else 60)]
        for s in base:
            s = [e for e in s if e["a"] != "Lose"]
            cut_at = [i for i in range(len(s) + 1)]
            for i in cut_at:
                pre = s[:i]
                if any(e["a"] == "Lose" for e in pre):
                    break
                cuts = [None, 0, 1, 4, 5, 6, 7] if tier == "quick" else [None] + list(range(0, 16))
                for c in cuts:
                    e = dict(a="Lose", clean=bool((i + (c or 0)) % 2), local=bool((i + (c or 0)) % 3 == 0))
                    if c is not None:
                        e["cut"] = c
                    kinds = ["plain", "again", "submit"]
                    before = [dict(a="WhenDisc", k=kinds[(i + (c or 0)) % 3])] if (i + (c or 0)) % 2 else []
                    scripts.append(("crash", pre + before +
                                    [e, dict(a="Submit", k="plain"), dict(a="WhenDisc", k=kinds[(i + 1 + (c or 0)) % 3]),
                                     dict(a="Submit", k="cb"), dict(a="Submit", k="plain")]))
    return scripts


def _drop_orphan_lines(s):
    out, pending = [], 0
    for e in s:
        if e["a"] == "BeginReply":
            pending = len(e["sh"])
            out.append(e)
        elif e["a"] == "Line":
            if pending:
                pending -= 1
                out.append(e)
        else:
            out.append(e)
    return out


RETURNS = ["none", "one", "none", "zero", "defer", "text"]


def with_returns(script, i):
    """per-line callbacks return something in every other script (the value is the application's business)"""
    if i % 2 == 0:
        return script
    out, n = [], i
    for e in script:
        if e["a"] == "Submit" and e.get("k") == "cb":
            n += 1
            e = dict(e, ret=RETURNS[n % len(RETURNS)])
        out.append(e)
    return out


def strip(trace):
    return [dict((k, v) for k, v in e.items() if k != "obs") for e in trace["steps"]]


def run(pid, tier, seed):
    rep = common.Report(pid, tier, seed)
    rep.assumptions = list(ASSUME)
    # 1. design check ----------------------------------------------------
    for name in MC[(pid, tier)]:
        r = tlc.run_tlc("ControlConn_MC", "ControlConn_%s.cfg" % name, workers=16,
                        timeout=120 if tier == "quick" else 900, coverage=False)
        if r.timed_out and not r.invariant_violated:
            rep.cov["tlc_runs"].append(dict(name=name, generated=r.generated, distinct=r.distinct, depth=r.depth,
                                            wall_s=round(r.wall, 1), ok=True, complete=False))
            rep.cov["states"] += r.distinct
            rep.cov["transitions"] += r.generated
        else:
            rep.tlc(name, r)
    for name in DEVS[pid] + PROBES[pid]:
        r = tlc.run_tlc("ControlConn_MC", "ControlConn_%s.cfg" % name, workers=4, timeout=120)
        rep.cov["tlc_runs"].append(dict(name=name, generated=r.generated, distinct=r.distinct,
                                        expected="counterexample", got=r.invariant_violated))
        if not r.invariant_violated:
            rep.broken.append("%s: expected a counterexample (vacuity guard), got none\n%s" % (name, r.out[-800:]))
    # 2. behaviours -> real code -> traces -------------------------------------
    scripts = scripts_for(pid, tier, seed, rep)
    segs = SEGS_QUICK
    traces, meta = [], []
    seen = set()
    for i, (src, s) in enumerate(scripts):
        s = with_returns(s, i)
        reps = 1 if tier == "quick" else 2
        for j in range(reps):
            seg = segs[(i + j * 3 + seed) % len(segs)]
            # in every third execution the caller of a plain command looks at its outcome only after the reply is in
            # in every other execution the two event kinds carry names of Tor's of which one is the beginning of the other
            wire = [None, dict(EVA="STREAM", EVB="STREAM_BW"), None, dict(EVA="CIRC_MINOR", EVB="CIRC")][i % 4]
            t = cc.replay(s, seg, random.Random(seed * 1000003 + i), late_attach=(i % 3 == 1), wire=wire)
            traces.append(t)
            meta.append((src, seg))
        h = common.digest(s)
        if h not in seen and nontrivial(pid, s):
            seen.add(h)
    rep.cov["evaluations"] = len(traces)
    rep.cov["distinct_nontrivial"] = len(seen)
    rep.cov["rule"] = ("stimulus scripts: TLC -simulate behaviours of ControlConn_Gen_%s, seeded random histories over the "
                       "same alphabet%s; each replayed into the real TorControlProtocol under a byte segmentation; distinct = "
                       "distinct scripts by hash; non-trivial = %s" %
                       (pid, ", loss injected at every step / byte offset of base scripts" if pid == "C03" else "",
                        {"C01": ">= 2 replies", "C02": "an event while a listener was added", "C03": "contains a loss"}[pid]))
    # 3. traces -> TLC ------------------------------------------------------
    res, runs = tlc.validate_parallel("ControlConnTrace", "ControlConnTrace.cfg", traces, nproc=12)
    pipeline.selftest_from(rep, "ControlConnTrace", "ControlConnTrace.cfg", traces[:60], res[:60])
    for r in runs:
        rep.cov["states"] += r.distinct
        rep.cov["transitions"] += r.generated
    verdict(pid, rep, traces, meta, res, runs)
    ok = [t for t, x in zip(traces, res) if x["matched"] == x["wanted"]]
    rep.cov["traces_validated_against_impl"] = len(ok)
    rep.cov["segmentations"] = [list(s) for s in segs]
    if ok:
        k = min(range(len(ok)), key=lambda i: abs(len(ok[i]["steps"]) - 12))
        rep.cov["samples"] = [dict(seg=ok[k]["seg"], steps=strip(ok[k])),
                              dict(seg=ok[0]["seg"], last_obs=ok[0]["steps"][-1]["obs"] if ok[0]["steps"] else None,
                                   steps=strip(ok[0]))]
    return rep.finish()


def verdict(pid, rep, traces, meta, res, runs):
    bad = [i for i, x in enumerate(res) if x["matched"] != x["wanted"]]
    if any(x["matched"] < 0 for x in res):
        errs = [r.out for r in runs if "Error" in r.out]
        out = errs[0] if errs else runs[0].out
        i = out.find("Error")
        rep.broken.append("trace validation produced no verdict:\n" + (out[max(0, i - 300):i + 1800] if i >= 0 else out[-1500:]))
        return
    if not bad:
        return
    # stimulus legality: a script that the environment part of the spec rejects is a harness bug
    sub = [traces[i] for i in bad[:200]]
    env, eruns = tlc.validate_parallel("ControlConnTrace", "ControlConnTrace.cfg", sub, nproc=8,
                                       extra_env={"VMODE": "env"})
    reported = 0
    for i, e in zip(bad, env):
        x = res[i]
        if e["matched"] != e["wanted"] and e["matched"] <= x["matched"]:
            rep.broken.append("illegal stimulus at step %d of a %s script (harness bug): %s" %
                              (e["matched"] + 1, meta[i][0], json.dumps(strip(traces[i])[:e["matched"] + 1])[-600:]))
            continue
        if reported < 5:
            k = x["matched"]
            step = traces[i]["steps"][k] if k < len(traces[i]["steps"]) else None
            rep.violation("real execution is not a behaviour of ControlConn: step %d (%s) of a %s script under segmentation %s; "
                          "observed %s" % (k + 1, step and step["a"], meta[i][0], traces[i]["seg"],
                                           json.dumps(step and step["obs"])[:400]),
                          dict(property=pid, module="ControlConn", seg=traces[i]["seg"], late=traces[i].get("late", False), wire=traces[i].get("wire"), script=strip(traces[i]),
                               matched=k, failing_step=step, errors=traces[i].get("errors")))
            reported += 1
    rep.cov["rejected_traces"] = len(bad)


def replay(pid, path):
    p = json.load(open(path))
    t = cc.replay(p["script"], tuple(p["seg"]), random.Random(0), late_attach=p.get("late", False), wire=p.get("wire"))
    res, r = tlc.validate_traces("ControlConnTrace", "ControlConnTrace.cfg", [t])
    x = res[0]
    print("replay: matched %d of %d steps" % (x["matched"], x["wanted"]))
    if x["matched"] != x["wanted"]:
        k = x["matched"]
        print("VIOLATION property=%s replay=%s" % (pid, path))
        print("  step %d: %s" % (k + 1, json.dumps(t["steps"][k])[:600]))
        return 1
    return 0
