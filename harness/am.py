"""C20: replay AddrMapM behaviours into the real AddrMap on a virtual clock."""
import datetime
import os
import sys
import time
import types

os.environ["TZ"] = "UTC"
time.tzset()
REPO = os.environ.get("VERIF_REPO", "/repo")
sys.path.insert(0, REPO)

from twisted.internet import task                         # noqa: E402
from twisted.internet.interfaces import IReactorTime      # noqa: E402
from zope.interface import implementer                    # noqa: E402

import txtorcon                                            # noqa: E402
import txtorcon.addrmap as addrmap_mod                     # noqa: E402
from txtorcon.interface import IAddrListener               # noqa: E402

assert os.path.abspath(txtorcon.__file__).startswith(os.path.abspath(REPO)), txtorcon.__file__

NAMES = {"n1": "www.n1.example", "n2": "n2abcdefghij.onion"}
ADDRS = {"a1": "10.0.0.1", "a2": "10.0.0.2", "b1": "10.0.1.1", "b2": "2001:db8::1"}
BASE = datetime.datetime(2030, 1, 1, 12, 0, 0)
FMT = "%Y-%m-%d %H:%M:%S"
NEVER = 999


@implementer(IAddrListener)
class Listener(object):
    def __init__(self):
        self.log = []

    def addrmap_added(self, addr):
        self.log.append(["added", addr.name])

    def addrmap_expired(self, name):
        self.log.append(["expired", name])


class InjectedListenerError(RuntimeError):
    pass


@implementer(IAddrListener)
class Raiser(object):
    """a second listener whose 'expired' handler fails"""
    def addrmap_added(self, addr):
        pass

    def addrmap_expired(self, name):
        raise InjectedListenerError("listener raises")


class Run(object):
    def __init__(self, tick, syntax, lmode="plain"):
        self.tick = tick
        self.syntax = syntax
        self.lmode = lmode
        self.clock = task.Clock()
        clock = self.clock

        class FakeDT(datetime.datetime):
            @classmethod
            def utcnow(cls):
                return BASE + datetime.timedelta(seconds=clock.seconds())

            @classmethod
            def now(cls, tz=None):
                return BASE + datetime.timedelta(seconds=clock.seconds())
        # virtualise the wall clock inside txtorcon.addrmap only (harness process only)
        addrmap_mod.datetime = types.SimpleNamespace(datetime=FakeDT, timedelta=datetime.timedelta)
        self.am = addrmap_mod.AddrMap()
        self.am.scheduler = IReactorTime(self.clock)
        self.l = Listener()
        self.am.add_listener(self.l)
        if lmode == "probe":
            # the listener looks the mapping up from inside its 'expired' handler: it must be gone already
            am, log_ = self.am, self.l.log
            run = self

            def probing(name, orig=self.l.addrmap_expired):
                orig(name)
                for key in [name] + [a for a in ADDRS.values()]:
                    try:
                        hit = am.find(key)
                    except KeyError:
                        continue
                    if hit.name == name:
                        run.l.log.append(["stale-in-callback", name])
            self.l.addrmap_expired = probing
        elif lmode == "raise":
            self.am.add_listener(Raiser())
        self.exc = []
        self.nstep = 0

    def line(self, e):
        name = NAMES[e["n"]]
        addr = "<error>" if e["addr"] == "<error>" else ADDRS[e["addr"]]
        if e["k"] == NEVER:
            form = self.nstep % 3
            if form == 0:
                return '%s %s NEVER' % (name, addr)
            if form == 1:
                return '%s %s "NEVER"' % (name, addr)
            return '%s %s NEVER CACHED="NO"' % (name, addr)
        when = BASE + datetime.timedelta(seconds=self.clock.seconds() + e["k"] * self.tick)
        ts = when.strftime(FMT)
        if addr == "<error>":
            return '%s <error> "%s" error=yes EXPIRES="%s"' % (name, ts, ts)
        if self.syntax == "local":
            return '%s %s "%s"' % (name, addr, ts)
        if self.syntax == "utc":
            return '%s %s "%s" EXPIRES="%s"' % (name, addr, ts, ts)
        return '%s %s "%s" EXPIRES="%s" CACHED="YES"' % (name, addr, ts, ts)

    def step(self, e):
        self.nstep += 1
        self.l.log = []
        try:
            if e["a"] == "Event":
                self.am.update(self.line(e))        # no reactor turn: zero-delay timers run at the next Advance (dt may be 0)
            else:
                self.clock.advance(e["dt"] * self.tick)
        except InjectedListenerError:
            # a real reactor logs what a timer call raises and goes on with the other calls that are due
            # (an event is not a reactor turn: nothing else runs then)
            for _ in range(4 if e["a"] != "Event" else 0):
                try:
                    self.clock.advance(0)
                    break
                except InjectedListenerError:
                    continue
        except Exception as ex:
            self.exc.append(repr(ex))
            self.l.log.append(["exception", repr(ex)[:60]])
        return self.obs()

    def obs(self):
        inv_names = dict((v, k) for k, v in NAMES.items())
        inv_addrs = dict((v, k) for k, v in ADDRS.items())
        names = {}
        for k, name in NAMES.items():
            try:
                a = self.am.find(name)
                names[k] = inv_addrs.get(str(a.ip), "?" + str(a.ip))
            except KeyError:
                names[k] = "none"
        addrs = {}
        for k, addr in ADDRS.items():
            try:
                a = self.am.find(addr)
                addrs[k] = inv_names.get(a.name, "?" + str(a.name))
            except KeyError:
                addrs[k] = "none"
        log = [[kind, inv_names.get(n, n)] for kind, n in self.l.log]
        return dict(names=names, addrs=addrs, log=log)


def replay(script, tick, syntax, lmode="plain"):
    run = Run(tick, syntax, lmode)
    steps = []
    for e in script:
        s = dict(e)
        s["obs"] = run.step(e)
        steps.append(s)
    return dict(steps=steps, tick=tick, syntax=syntax, lmode=lmode, errors=run.exc[:2])
