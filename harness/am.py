"""C20: replay AddrMapM behaviours into the real AddrMap on a virtual clock."""
import datetime
import os
import sys
import time
import types

os.environ["TZ"] = "UTC"
time.tzset()
REPO = os.environ.get("VERIF_REPO", "/repo")
sys.path.insert(0, REPO)

from twisted.internet import task                         # noqa: E402
from twisted.internet.interfaces import IReactorTime      # noqa: E402
from zope.interface import implementer                    # noqa: E402

import txtorcon                                            # noqa: E402
import txtorcon.addrmap as addrmap_mod                     # noqa: E402
from txtorcon.interface import IAddrListener               # noqa: E402

assert os.path.abspath(txtorcon.__file__).startswith(os.path.abspath(REPO)), txtorcon.__file__

NAMES = {"n1": "www.n1.example", "n2": "n2abcdefghij.onion"}
ADDRS = {"a1": "10.0.0.1", "a2": "10.0.0.2", "b1": "10.0.1.1", "b2": "2001:db8::1", "s": "10.0.9.9"}
BASE = datetime.datetime(2030, 1, 1, 12, 0, 0)
FMT = "%Y-%m-%d %H:%M:%S"
NEVER = 999


@implementer(IAddrListener)
class Listener(object):
    def __init__(self):
        self.log = []

    def addrmap_added(self, addr):
        self.log.append(["added", addr.name])

    def addrmap_expired(self, name):
        self.log.append(["expired", name])


class InjectedListenerError(RuntimeError):
    pass


@implementer(IAddrListener)
class Raiser(object):
    """a second listener whose 'expired' handler fails"""
    def addrmap_added(self, addr):
        pass

    def addrmap_expired(self, name):
        raise InjectedListenerError("listener raises")


class Run(object):
    def __init__(self, tick, syntax, lmode="plain", feed="direct", script=()):
        self.tick = tick
        self.syntax = syntax
        self.lmode = lmode
        self.feed = feed
        self.clock = task.Clock()
        clock = self.clock

        class FakeDT(datetime.datetime):
            @classmethod
            def utcnow(cls):
                return BASE + datetime.timedelta(seconds=clock.seconds())

            @classmethod
            def now(cls, tz=None):
                return BASE + datetime.timedelta(seconds=clock.seconds())
        # virtualise the wall clock inside txtorcon.addrmap only (harness process only)
        addrmap_mod.datetime = types.SimpleNamespace(datetime=FakeDT, timedelta=datetime.timedelta)
        self.exc = []
        self.nstep = 0
        self.state = None
        if feed == "state":
            # the map of a TorState on a control connection: what Tor already maps when the controller connects arrives
            # as the answer to GETINFO address-mappings/all, everything later as ADDRMAP events - the first of them
            # possibly while the controller is still bootstrapping (right after its subscription is acknowledged)
            from twisted.test import proto_helpers
            from txtorcon import TorControlProtocol, TorState
            import simtor
            self.proto = TorControlProtocol()
            self.tr = proto_helpers.StringTransport()
            self.sim = simtor.SimTor(self.proto, self.tr)
            self.sim.info.update({"ns/all": [], "circuit-status": "", "stream-status": "", "address-mappings/all": "",
                                  "entry-guards": "", "process/pid": "1"})
            self.state = TorState(self.proto)
            self.am = self.state.addrmap
        else:
            self.am = addrmap_mod.AddrMap()
        self.am.scheduler = IReactorTime(self.clock)
        self.l = Listener()
        self.am.add_listener(self.l)
        if lmode == "probe":
            # the listener looks the mapping up from inside its 'expired' handler: it must be gone already
            am, log_ = self.am, self.l.log
            run = self

            def probing(name, orig=self.l.addrmap_expired):
                orig(name)
                for key in [name] + [a for a in ADDRS.values()]:
                    try:
                        hit = am.find(key)
                    except KeyError:
                        continue
                    if hit.name == name:
                        run.l.log.append(["stale-in-callback", name])
            self.l.addrmap_expired = probing
        elif lmode == "raise":
            self.am.add_listener(Raiser())
        self.prefix = 0
        if feed == "state":
            pre = []
            for e in script:
                if e["a"] != "Event":
                    break
                pre.append(e)
            k = (len(pre) + 1) // 2
            for i, e in enumerate(pre[:k]):
                if e["addr"] == "<error>":
                    k = i
                    break
            keep = self.syntax
            self.syntax = "local"
            snap = []
            for e in pre[:k]:
                self.nstep += 1
                ln = self.line(e)
                snap.append(ln.replace(' CACHED="NO"', ""))
            self.syntax = keep
            early = []
            for e in pre[k:]:
                self.nstep += 1
                early.append("650 ADDRMAP %s\r\n" % self.line(e))
            self.prefix = len(pre)
            self.sim.info["address-mappings/all"] = snap[0] if len(snap) == 1 else ("" if not snap else snap)
            sent = [False]

            def setevents(line):
                if "ADDRMAP" in line and not sent[0]:
                    sent[0] = True
                    return b"250 OK\r\n" + "".join(early).encode("latin-1")
                return b"250 OK\r\n"
            self.sim.handlers["SETEVENTS"] = setevents
            try:
                self.proto.makeConnection(self.tr)
                self.sim.pump()
                assert self.state.post_bootstrap.called, "TorState did not bootstrap"
                r = self.state.post_bootstrap.result
                assert not isinstance(r, Exception) and not hasattr(r, "getTraceback"), r
            except InjectedListenerError:
                pass
            except Exception as ex:
                self.exc.append(repr(ex))
            self.nstep = 0

    def line(self, e):
        name = NAMES[e["n"]]
        addr = "<error>" if e["addr"] == "<error>" else ADDRS[e["addr"]]
        if e["k"] == NEVER:
            form = self.nstep % 3
            if form == 0:
                return '%s %s NEVER' % (name, addr)
            if form == 1:
                return '%s %s "NEVER"' % (name, addr)
            return '%s %s NEVER CACHED="NO"' % (name, addr)
        when = BASE + datetime.timedelta(seconds=self.clock.seconds() + e["k"] * self.tick)
        ts = when.strftime(FMT)
        if addr == "<error>":
            return '%s <error> "%s" error=yes EXPIRES="%s"' % (name, ts, ts)
        if self.syntax == "local":
            return '%s %s "%s"' % (name, addr, ts)
        if self.syntax == "utc":
            return '%s %s "%s" EXPIRES="%s"' % (name, addr, ts, ts)
        return '%s %s "%s" EXPIRES="%s" CACHED="YES"' % (name, addr, ts, ts)

    def step(self, e):
        self.nstep += 1
        if self.feed == "state" and self.nstep <= self.prefix:
            # delivered during the bootstrap already: the map is observable once the whole prefix is in
            o = self.obs()
            o["skip"] = "log" if self.nstep == self.prefix else "all"
            if self.exc:
                o["skip"] = "none"
            return o
        self.l.log = []
        try:
            if e["a"] == "Event" and self.feed == "state":
                self.sim.event("650 ADDRMAP %s\r\n" % self.line(e))
            elif e["a"] == "Event":
                self.am.update(self.line(e))        # no reactor turn: zero-delay timers run at the next Advance (dt may be 0)
            else:
                self.clock.advance(e["dt"] * self.tick)
        except InjectedListenerError:
            # a real reactor logs what a timer call raises and goes on with the other calls that are due
            # (an event is not a reactor turn: nothing else runs then)
            for _ in range(4 if e["a"] != "Event" else 0):
                try:
                    self.clock.advance(0)
                    break
                except InjectedListenerError:
                    continue
        except Exception as ex:
            self.exc.append(repr(ex))
            self.l.log.append(["exception", repr(ex)[:60]])
        return self.obs()

    def obs(self):
        inv_names = dict((v, k) for k, v in NAMES.items())
        inv_addrs = dict((v, k) for k, v in ADDRS.items())
        names = {}
        for k, name in NAMES.items():
            try:
                a = self.am.find(name)
                names[k] = inv_addrs.get(str(a.ip), "?" + str(a.ip))
            except KeyError:
                names[k] = "none"
        addrs = {}
        for k, addr in ADDRS.items():
            try:
                a = self.am.find(addr)
                addrs[k] = inv_names.get(a.name, "?" + str(a.name))
            except KeyError:
                addrs[k] = "none"
        log = [[kind, inv_names.get(n, n)] for kind, n in self.l.log]
        return dict(names=names, addrs=addrs, log=log, skip="none")


def replay(script, tick, syntax, lmode="plain", feed="direct"):
    run = Run(tick, syntax, lmode, feed, script)
    steps = []
    for e in script:
        s = dict(e)
        s["obs"] = run.step(e)
        steps.append(s)
    return dict(steps=steps, tick=tick, syntax=syntax, lmode=lmode, feed=feed, errors=run.exc[:2])


class _Sink(object):
    def __call__(self, ev):
        pass


from twisted.python import log as _log                    # noqa: E402
_log.startLoggingWithObserver(_Sink(), setStdout=False)
