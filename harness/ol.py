"""C17: drive TCPHiddenServiceEndpoint.listen() step by step with one injected fault."""
import os
import shutil
import sys
import tempfile

REPO = os.environ.get("VERIF_REPO", "/repo")
sys.path.insert(0, REPO)

from twisted.internet import defer, error                      # noqa: E402
from twisted.internet.address import IPv4Address                # noqa: E402
from twisted.internet.protocol import Factory, Protocol         # noqa: E402
from twisted.python import failure, log                         # noqa: E402
from twisted.test import proto_helpers                          # noqa: E402

import txtorcon                                                  # noqa: E402
from txtorcon import TorControlProtocol, TorConfig, TorProtocolError   # noqa: E402
from txtorcon.endpoints import TCPHiddenServiceEndpoint, TCPHiddenServiceEndpointParser   # noqa: E402
from txtorcon.onion import AuthBasic, AuthStealth                # noqa: E402
from txtorcon.torcontrolprotocol import TorDisconnectError       # noqa: E402

import simtor                                                    # noqa: E402

assert os.path.abspath(txtorcon.__file__).startswith(os.path.abspath(REPO)), txtorcon.__file__

SID = "listenlistenlist"


class FakePort(object):
    def __init__(self, reactor, port, interface):
        self.reactor, self.port, self.interface = reactor, port, interface
        self.reactor.open.append(self)

    def getHost(self):
        return IPv4Address("TCP", self.interface or "0.0.0.0", self.port)

    def startListening(self):
        if self not in self.reactor.open:
            self.reactor.open.append(self)

    def stopListening(self):
        if self in self.reactor.open:
            self.reactor.open.remove(self)
        return defer.succeed(None)


class ListenReactor(proto_helpers.MemoryReactorClock):
    def __init__(self, fail_bind):
        proto_helpers.MemoryReactorClock.__init__(self)
        self.open, self.next, self.fail_bind, self.bound = [], 40001, fail_bind, 0
        self.busy = set()       # local ports somebody else has taken

    def listenTCP(self, port, factory, backlog=50, interface=""):
        if self.fail_bind or port in self.busy:
            raise error.CannotListenError(interface, port, "injected")
        if port == 0:
            port = self.next
            self.next += 1
        self.bound = port
        return FakePort(self, port, interface)

    def forget(self):
        """start observing afresh (after a prelude): what is open now must have been closed by the prelude itself"""
        assert not self.open, "the prelude left a listener open"
        self.bound = 0


class InjectedConfigError(Exception):
    pass


# endpoint configurations: (name, kind, builder)
def configurations():
    return ["eph3", "eph2key", "eph3single", "fsdir3", "fsimplicit", "tor_eph", "tor_fs", "eph3_localport", "fs_localport",
            # built from an endpoint description string ("onion:80:controlPort=...:..."): the control connection is made
            # by the endpoint itself (TCPHiddenServiceEndpoint.system_tor -> txtorcon.connect)
            "str_eph", "str_key", "str_fs_localport", "str_single",
            # the caller hands over a TorConfig that is still bootstrapping (as an instance / in a fired Deferred)
            "boot_eph", "boot_fs_d", "boot_tor_second",
            # Tor already has an authenticated filesystem service configured (loaded into the TorConfig at bootstrap)
            "fs_beside_auth", "eph_beside_auth",
            # earlier on this TorConfig another endpoint with the same caller-held key tried to listen and Tor refused
            # the service (that listener was closed again): the application tries once more
            "eph2key_retry",
            # authenticated filesystem services (faults up to Tor's answer to the creation command only)
            "fsauth_basic", "fsauth_stealth"]


INVALID = ["eph_stealth", "eph_with_dir", "fs_with_key", "fs_single", "both_auth",
           "str_bad_version", "str_dir_and_key", "str_bad_singlehop", "str_version_word",
           # the deprecated stealth_auth= keyword must be refused exactly like auth=AuthStealth(..)
           "eph_stealth_legacy", "implicit_eph_stealth_legacy"]


class Run(object):
    def __init__(self, cfg, fault, others=False):
        self.cfg, self.fault, self.others = cfg, fault, others
        self.proto = TorControlProtocol()
        self.connect_sim(self.proto)
        self.authdir = None
        if cfg.endswith("_beside_auth"):
            self.authdir = tempfile.mkdtemp(prefix="verif-hsauth-")
            with open(os.path.join(self.authdir, "hostname"), "w") as f:
                f.write("aliceaaaaaaaaaaa.onion Y29va2llYWxpY2U # client: alice\n"
                        "bobbbbbbbbbbbbbb.onion Y29va2llYm9iYm9i # client: bob\n")
            reply = ("250-HiddenServiceDir=%s\r\n250-HiddenServiceVersion=2\r\n250-HiddenServicePort=81 127.0.0.1:8081\r\n"
                     "250 HiddenServiceAuthorizeClient=basic alice,bob\r\n" % self.authdir).encode()
            self.sim.handlers["GETCONF"] = lambda line: (reply if line.lower() == "getconf hiddenserviceoptions" else None)
        self.config = None
        if not cfg.startswith("str_"):
            self.proto.makeConnection(self.tr)
            self.sim.pump()
            d = TorConfig.from_protocol(self.proto)
            self.sim.pump()
            self.config = d.result
            if others:
                # the application follows descriptor events itself
                self.proto.add_event_listener("HS_DESC", lambda *a: None)
                self.sim.pump()
        self.hold_unsub = False     # from the creation reply on, SETEVENTS (giving up HS_DESC) waits for UnsubAck
        self.sim.hold = lambda line: (line.startswith("ADD_ONION") or line.startswith("SETCONF HiddenService") or
                                      (cfg.startswith("boot_") and line == "GETINFO config/names") or
                                      (self.hold_unsub and line.startswith("SETEVENTS")))
        self.reactor = ListenReactor(fail_bind=(fault == "bind"))
        self.config_d = defer.Deferred()
        self.fired = []
        self.exc = False
        self.errors = []
        self.tmp = None
        self.ep = None
        self.public = 80
        self.nlog = len(self.sim.log)
        self.asked = []
        if cfg == "eph2key_retry":
            prevreactor = ListenReactor(fail_bind=False)
            prev = TCPHiddenServiceEndpoint(prevreactor, defer.succeed(self.config), 8081, ephemeral=True, version=2,
                                            private_key="RSA1024:c29tZWtleQ==")
            gone = []
            prev.listen(Factory.forProtocol(Protocol)).addBoth(gone.append)
            self.sim.pump()
            self.sim.release(b"512 Bad arguments to ADD_ONION: injected\r\n")
            assert gone and isinstance(gone[0], failure.Failure), gone
            assert not prevreactor.open, "the earlier endpoint left its listener open"
            self.nlog = len(self.sim.log)

    def connect_sim(self, proto):
        self.proto = proto
        self.tr = proto_helpers.StringTransport()
        self.sim = simtor.SimTor(self.proto, self.tr)
        self.sim.info.update({"config/names": ["Nickname String", "HiddenServiceOptions Virtual"], "config/defaults": ["Nickname Unnamed"],
                              "onions/current": "", "onions/detached": ""})
        self.sim.conf["hiddenserviceoptions"] = None
        self.sim.handlers["ADD_ONION"] = lambda line: ("250-ServiceID=%s\r\n250-PrivateKey=ED25519-V3:a2V5\r\n250 OK\r\n" % SID).encode()
        if self.fault == "subscribe":
            # this Tor refuses the subscription to its descriptor events (and accepts everything else)
            self.sim.handlers["SETEVENTS"] = lambda line: (b'552 Unrecognized event "HS_DESC"\r\n' if "HS_DESC" in line.split() else None)

    def from_string(self, public, **kw):
        """what serverFromString(reactor, "onion:<public>:k=v:...") does once Twisted has found the parser plugin"""
        self.public = int(public)
        return TCPHiddenServiceEndpointParser().parseStreamServer(self.reactor, public, **kw)

    def build(self):
        r, c = self.reactor, self.config_d
        cfg = self.cfg
        if cfg == "eph3":
            return TCPHiddenServiceEndpoint(r, c, 80, ephemeral=True, version=3)
        if cfg == "eph3_localport":
            return TCPHiddenServiceEndpoint(r, c, 80, local_port=4321, ephemeral=True, version=3)
        if cfg == "fs_localport":
            self.tmp = tempfile.mkdtemp(prefix="verif-hs-")
            return TCPHiddenServiceEndpoint(r, c, 80, hidden_service_dir=self.tmp, local_port=4321, version=3)
        if cfg == "fs_beside_auth":
            self.tmp = tempfile.mkdtemp(prefix="verif-hs-")
            self.public = 443
            return TCPHiddenServiceEndpoint(r, c, 443, hidden_service_dir=self.tmp, version=3)
        if cfg == "eph_beside_auth":
            return TCPHiddenServiceEndpoint(r, c, 80, ephemeral=True, version=3)
        if cfg in ("eph2key", "eph2key_retry"):
            self.public = 8080
            return TCPHiddenServiceEndpoint(r, c, 8080, ephemeral=True, version=2, private_key="RSA1024:c29tZWtleQ==")
        if cfg == "eph3single":
            self.public = 443
            return TCPHiddenServiceEndpoint(r, c, 443, version=3, single_hop=True)
        if cfg == "fsdir3":
            self.tmp = tempfile.mkdtemp(prefix="verif-hs-")
            self.public = 443
            return TCPHiddenServiceEndpoint(r, c, 443, hidden_service_dir=self.tmp, version=3)
        if cfg in ("fsauth_basic", "fsauth_stealth"):
            # an authenticated filesystem service (only driven up to Tor's answer to the SETCONF: matching its uploads
            # needs per-client hostname files)
            self.tmp = tempfile.mkdtemp(prefix="verif-hs-")
            auth = AuthBasic(["alice", "bob"]) if cfg == "fsauth_basic" else AuthStealth(["alice", "bob"])
            return TCPHiddenServiceEndpoint(r, c, 80, hidden_service_dir=self.tmp, auth=auth, version=2)
        if cfg == "fsimplicit":
            ep = TCPHiddenServiceEndpoint(r, c, 80, ephemeral=False, version=3)
            self.tmp = ep.hidden_service_dir
            return ep
        if cfg in ("tor_eph", "tor_fs"):
            tor = txtorcon.Tor(r, self.proto, _tor_config=self.config)
            self.config_d = None
            if cfg == "tor_eph":
                self.public = 8443
                return tor.create_onion_endpoint(8443, version=3)
            self.tmp = tempfile.mkdtemp(prefix="verif-hs-")
            self.public = 22
            return tor.create_filesystem_onion_endpoint(22, self.tmp, version=3)
        if cfg == "boot_tor_second":
            # a Tor object that has no configuration yet (as txtorcon.connect() gives): the application creates two onion
            # endpoints back to back, so both ask for the configuration while it is still loading; the second one listens
            tor = txtorcon.Tor(r, self.proto)
            tor.create_onion_endpoint(8081, version=3)
            self.sim.pump()
            self.config_d = None
            return tor.create_onion_endpoint(80, version=3)
        if cfg in ("boot_eph", "boot_fs_d"):
            booting = TorConfig(self.proto)          # starts bootstrapping; the first query stays unanswered for now
            self.sim.pump()
            self.config_d = None
            if cfg == "boot_eph":
                return TCPHiddenServiceEndpoint(r, booting, 80, ephemeral=True, version=3)
            self.tmp = tempfile.mkdtemp(prefix="verif-hs-")
            self.public = 443
            return TCPHiddenServiceEndpoint(r, defer.succeed(booting), 443, hidden_service_dir=self.tmp, version=3)
        if cfg == "str_eph":
            return self.from_string("80", controlPort="9051", version="3")
        if cfg == "str_key":
            return self.from_string("8080", controlPort="9051", privateKey="ED25519-V3:a2V5")
        if cfg == "str_single":
            return self.from_string("443", controlPort="9051", version="3", singleHop="true")
        if cfg == "str_fs_localport":
            self.tmp = tempfile.mkdtemp(prefix="verif-hs-")
            return self.from_string("22", controlPort="9051", hiddenServiceDir=self.tmp, localPort="4321", version="3")
        if cfg == "str_bad_version":
            return self.from_string("80", controlPort="9051", version="4")
        if cfg == "str_version_word":
            return self.from_string("80", controlPort="9051", version="three")
        if cfg == "str_dir_and_key":
            return self.from_string("80", controlPort="9051", hiddenServiceDir="/tmp/nonexistent-hs", privateKey="ED25519-V3:a2V5")
        if cfg == "str_bad_singlehop":
            return self.from_string("80", controlPort="9051", singleHop="maybe")
        # invalid combinations
        if cfg == "eph_stealth":
            return TCPHiddenServiceEndpoint(r, c, 80, ephemeral=True, auth=AuthStealth(["alice"]))
        if cfg == "eph_stealth_legacy":
            return TCPHiddenServiceEndpoint(r, c, 80, ephemeral=True, stealth_auth=["alice", "bob"])
        if cfg == "implicit_eph_stealth_legacy":
            return TCPHiddenServiceEndpoint(r, c, 80, stealth_auth=["alice"])
        if cfg == "eph_with_dir":
            return TCPHiddenServiceEndpoint(r, c, 80, ephemeral=True, hidden_service_dir="/tmp/nonexistent-hs")
        if cfg == "fs_with_key":
            return TCPHiddenServiceEndpoint(r, c, 80, ephemeral=False, hidden_service_dir="/tmp/nonexistent-hs", private_key="RSA1024:abcd")
        if cfg == "fs_single":
            return TCPHiddenServiceEndpoint(r, c, 80, ephemeral=False, hidden_service_dir="/tmp/nonexistent-hs", single_hop=True)
        if cfg == "both_auth":
            return TCPHiddenServiceEndpoint(r, c, 80, auth=AuthBasic(["bob"]), stealth_auth=["alice"])
        raise ValueError(cfg)

    def step(self, e):
        a = e["a"]
        try:
            if a == "Refuse":
                try:
                    self.build()
                    self.fired.append("built")
                except ValueError as ex:
                    self.fired.append(failure.Failure(ex))
            elif a == "Listen":
                self.ep = self.build()
                d = self.listen_d = self.ep.listen(Factory.forProtocol(Protocol))
                d.addBoth(self.fired.append)
                self.sim.pump()
            elif a == "ConfigReady" and self.cfg.startswith("str_"):
                # the endpoint's own control connection (to 127.0.0.1:9051) is made, or refused
                host, port, factory, timeout, bind = self.reactor.tcpClients[0]
                assert (host, port) == ("127.0.0.1", 9051), (host, port)
                if self.fault == "config":
                    factory.clientConnectionFailed(None, failure.Failure(error.ConnectionRefusedError("injected")))
                else:
                    proto = factory.buildProtocol(IPv4Address("TCP", host, port))
                    hold = self.sim.hold
                    self.connect_sim(proto)
                    self.sim.hold = hold
                    self.nlog = 0
                    proto.makeConnection(self.tr)
                    self.sim.pump()
            elif a == "ConfigReady" and self.cfg.startswith("boot_"):
                # the configuration's bootstrap goes on (or Tor refuses its first query)
                n = 0
                while self.sim.held and self.sim.held[0] == "GETINFO config/names" and n < 4:
                    # (every configuration that is being loaded gets its answer: overlapping requests for the
                    # configuration of one Tor object may each have started a load of their own)
                    n += 1
                    if self.fault == "config":
                        self.sim.release(b"551 injected\r\n")
                    else:
                        self.sim.release()
            elif a == "ConfigReady":
                if self.config_d is not None:
                    if self.fault == "config":
                        self.config_d.errback(InjectedConfigError("injected"))
                    else:
                        self.config_d.callback(self.config)
                self.sim.pump()
            elif a == "UnsubAck":
                self.sim.release()
            elif a == "CreateReply":
                self.hold_unsub = True
                if self.fault == "reject":
                    self.sim.release(b"512 Bad arguments: injected\r\n")
                else:
                    if self.tmp:
                        with open(os.path.join(self.tmp, "hostname"), "w") as f:
                            f.write(SID + ".onion\n")
                    self.sim.release()
            elif a == "WaitOver":
                d1 = "$" + "AB" * 20
                self.sim.event("650 HS_DESC UPLOAD %s UNKNOWN %s desc\r\n" % (SID, d1))
                if getattr(self, "shared", False):
                    # another service shares our directory: its upload there is refused, and somebody's fetch of its
                    # descriptor from there fails, after our upload was announced and before it is confirmed
                    self.sim.event("650 HS_DESC FAILED otherotherother3 UNKNOWN %s REASON=UPLOAD_REJECTED\r\n" % d1)
                    self.sim.event("650 HS_DESC FAILED otherotherother3 NO_AUTH %s REASON=NOT_FOUND\r\n" % d1)
                if self.fault == "uploads":
                    self.sim.event("650 HS_DESC FAILED %s UNKNOWN %s REASON=UPLOAD_REJECTED\r\n" % (SID, d1))
                else:
                    self.sim.event("650 HS_DESC UPLOADED %s UNKNOWN %s\r\n" % (SID, d1))
            elif a == "Foreign" and e.get("kind") == "fetchfail":
                # somebody using this Tor looked our address up before it was published: Tor reports the failed
                # *fetch* with the same event word, for our address, naming a directory no upload was announced to
                self.sim.event("650 HS_DESC FAILED %s NO_AUTH $%s REASON=NOT_FOUND\r\n" % (SID, "EF" * 20))
            elif a == "Foreign":
                other, d2 = "otherotherother3", "$" + "CD" * 20
                self.sim.event("650 HS_DESC UPLOAD %s UNKNOWN %s desc\r\n" % (other, d2))
                if e.get("kind") == "fail":
                    self.sim.event("650 HS_DESC FAILED %s UNKNOWN %s REASON=UPLOAD_REJECTED\r\n" % (other, d2))
                else:
                    self.sim.event("650 HS_DESC UPLOADED %s UNKNOWN %s\r\n" % (other, d2))
            elif a == "Relisten":
                # listen() again on the same endpoint object; observation starts afresh for this call
                self.fired, self.asked_before = [], list(self.asked)
                if self.fault == "reject":
                    self.fault, self.asked = "none", []
                self.hold_unsub = False
                while self.sim.held:
                    self.sim.release()          # (Tor has long answered what the earlier attempt left outstanding)
                self.nlog = len(self.sim.log)
                if e.get("busy"):
                    self.reactor.busy.add(self.reactor.bound)      # somebody else has taken the local port meanwhile
                d = self.listen_d = self.ep.listen(Factory.forProtocol(Protocol))
                d.addBoth(self.fired.append)
                self.sim.pump()
            elif a == "Cancel":
                self.listen_d.cancel()
                self.sim.pump()
            elif a == "Disconnect":
                self.proto.connectionLost(failure.Failure(error.ConnectionLost("injected")))
            elif a == "StopListening":
                self.fired[0].stopListening()
            elif a == "StartListening":
                self.fired[0].startListening()
            else:
                raise ValueError(a)
        except Exception:
            self.exc = True
            self.errors.append(failure.Failure().getTraceback())
        return self.obs()

    def obs(self):
        for line in self.sim.log[self.nlog:] + list(self.sim.held):
            m = None
            if line.startswith("ADD_ONION"):
                for t in line.split():
                    if t.startswith("Port="):
                        pub, loc = t[5:].split(",", 1)
                        host, port = loc.rsplit(":", 1)
                        m = [int(pub), host, int(port)]
            elif line.startswith("SETCONF HiddenService"):
                import re
                # (services Tor already had are re-listed in the same SETCONF: ours is not the pre-existing one)
                found = [x for x in re.findall(r'HiddenServicePort="?(\d+) ([^":]+):(\d+)"?', line)
                         if not (self.authdir and (x[0], x[2]) == ("81", "8081"))]
                if found:
                    mm = found[-1]
                    m = [int(mm[0]), mm[1], int(mm[2])]
            if m is not None and m not in self.asked:
                self.asked.append(m)
        self.nlog = len(self.sim.log)
        result, why, host, hostport = "p", "", "", 0
        if self.fired:
            v = self.fired[0]
            if isinstance(v, failure.Failure):
                result = "err"
                if v.check(ValueError) and self.ep is None:
                    why = "invalid"
                elif v.check(InjectedConfigError) or (self.cfg.startswith("str_") and v.check(error.ConnectError)) \
                        or (self.cfg.startswith("boot_") and self.fault == "config" and v.check(TorProtocolError)):
                    why = "config"
                elif v.check(error.CannotListenError):
                    why = "bind"
                elif v.check(defer.CancelledError):
                    why = "cancel"
                elif v.check(TorDisconnectError):
                    why = "disconnect"
                elif v.check(TorProtocolError) and "Unrecognized event" in str(v.value):
                    why = "subscribe"
                elif v.check(TorProtocolError):
                    why = "reject"
                elif v.check(RuntimeError) and "upload" in str(v.value).lower():
                    why = "uploads"
                else:
                    why = "other:" + v.type.__name__
                    self.errors.append(v.getTraceback())
            elif v == "built":
                result = "built-invalid"
            else:
                result = "port"
                try:
                    addr = v.getHost()
                    host, hostport = addr.onion_uri, addr.onion_port
                except Exception:
                    host = "?"
        return dict(open=[[p.port, p.interface] for p in self.reactor.open], asked=list(self.asked), bound=self.reactor.bound,
                    result=result, why=why, nres=len(self.fired), host=host or "", hostport=hostport, exc=self.exc)

    def close(self):
        if self.tmp and os.path.isdir(self.tmp):
            shutil.rmtree(self.tmp, True)
        if self.authdir and os.path.isdir(self.authdir):
            shutil.rmtree(self.authdir, True)


def script_for(cfg, fault, others=False):
    s = list(SCRIPTS[fault])
    if others and "UnsubAck" in s:
        s.remove("UnsubAck")        # (nothing to acknowledge: the connection stays subscribed for the other listener)
    if cfg.startswith("tor_") and "ConfigReady" in s:
        s.remove("ConfigReady")
    return s


SCRIPTS = {
    "none": ["Listen", "ConfigReady", "CreateReply", "WaitOver", "UnsubAck", "StopListening", "StartListening", "StopListening"],
    "config": ["Listen", "ConfigReady"],
    "bind": ["Listen", "ConfigReady"],
    "reject": ["Listen", "ConfigReady", "CreateReply"],
    "uploads": ["Listen", "ConfigReady", "CreateReply", "WaitOver", "UnsubAck"],
    "disconnect_create": ["Listen", "ConfigReady", "Disconnect"],
    "disconnect_wait": ["Listen", "ConfigReady", "CreateReply", "Disconnect"],
    "disconnect_unsub": ["Listen", "ConfigReady", "CreateReply", "WaitOver", "Disconnect"],
    "cancel_wait": ["Listen", "ConfigReady", "CreateReply", "Cancel", "UnsubAck"],
    "subscribe": ["Listen", "ConfigReady", "CreateReply"],
    # listen() again on the same endpoint: a retry after Tor refused the service; a restart after the port was stopped
    "reject_retry": ["Listen", "ConfigReady", "CreateReply", "Relisten", "CreateReply", "WaitOver", "UnsubAck", "StopListening"],
    "none_relisten": ["Listen", "ConfigReady", "CreateReply", "WaitOver", "UnsubAck", "StopListening", "Relisten", "StopListening"],
    "none_relisten_busy": ["Listen", "ConfigReady", "CreateReply", "WaitOver", "UnsubAck", "StopListening", "Relisten!"],
    "invalid": ["Refuse"],
}


MODEL_FAULT = {"reject_retry": "reject", "none_relisten": "none", "none_relisten_busy": "none"}       # script name -> the fault the model starts with


def replay(cfg, fault, noise="", others=False):
    """noise: "" | "up" | "fail": descriptor events of another service arrive while the creation command is
    outstanding and again during the descriptor wait"""
    run = Run(cfg, MODEL_FAULT.get(fault, fault), others)
    run.shared = (noise == "fail")
    steps = []
    script = [dict(a="Relisten", busy=True) if a == "Relisten!" else dict(a=a) for a in script_for(cfg, fault, others)]
    if noise:
        out = []
        for i, e in enumerate(script):
            out.append(e)
            nxt = script[i + 1]["a"] if i + 1 < len(script) else ""
            if nxt in ("CreateReply", "WaitOver", "UnsubAck", "Cancel") or (nxt == "Disconnect" and e["a"] != "Listen"):
                out.append(dict(a="Foreign", kind=noise))
        script = out
    for e in script:
        e["obs"] = run.step(e)
        steps.append(e)
        if run.exc:
            break
    run.close()
    return dict(steps=steps, cfg=cfg, fault=MODEL_FAULT.get(fault, fault), script=fault, noise=noise, others=bool(others), cfgnow=cfg.startswith("tor_"), public=run.public, hostname=SID + ".onion", errors=run.errors[:2])


class _Sink(object):
    def __call__(self, ev):
        pass


log.startLoggingWithObserver(_Sink(), setStdout=False)
