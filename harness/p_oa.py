"""C14: ADD_ONION carries exactly the requested service; key custody (spec/OnionAdd*.tla)."""
import itertools
import json
import random

import common
import pipeline
import tlc
import oa

ASSUME = [
    "history 'single': an earlier service created (and removed) through the same Tor object was a single-hop one; the request under test "
    "carries the flags of its own options only",
    "port sets include one public port forwarded to two local targets (a repeated public port, in every mapping form)",
    "TLC decides every recorded vector with OnionAdd.Holds14 (expected key specifier, port mappings, flag set, client-auth entries, "
    "address, key custody, DEL_ONION); the full product of options is enumerated by the Python driver",
    "the ADD_ONION line is tokenised by the harness's own parser (space separated, Port=pub,target / Flags=a,b / ClientAuth=name[:blob])",
    "SimTor always returns a PrivateKey= line (also when DiscardPK was sent) so that 'never stored' is observable",
    "int-form port mappings use the local port a fake reactor hands out; a prefixed key of the wrong type for the version may be refused",
    "every authenticated request is also made with an AuthBasic object that was used before for another service (whose reply carried "
    "Tor-generated cookies): the ADD_ONION under test must be the same",
]
KEYS = [dict(kind="none", type="", body=""), dict(kind="discard", type="", body=""),
        dict(kind="bare", type="", body="QmFyZUJsb2I="),
        dict(kind="prefixed", type="ED25519-V3", body="UHJlZml4ZWQ="), dict(kind="prefixed", type="RSA1024", body="UlNBYmxvYg=="),
        dict(kind="crlf", type="", body="", raw="QmFk\r\nQUIT"), dict(kind="crlf", type="", body="", raw="ED25519-V3:QmFk\nX"),
        dict(kind="crlf", type="", body="", raw="RSA1024:abc\r")]
PORTSETS = [[dict(form="int", pub=80, loc="")], [dict(form="pair", pub=443, loc="127.0.0.1:8443")],
            [dict(form="str", pub=80, loc="127.0.0.1:8080")], [dict(form="str", pub=22, loc="unix:/tmp/ssh.sock")],
            [dict(form="pairstr", pub=81, loc="unix:/var/run/web.sock")],
            [dict(form="int", pub=80, loc=""), dict(form="str", pub=443, loc="127.0.0.1:8443")],
            [dict(form="pair", pub=1, loc="127.0.0.1:65535"), dict(form="int", pub=65535, loc=""), dict(form="str", pub=8, loc="localhost:9")],
            [dict(form="int", pub=80, loc=""), dict(form="int", pub=443, loc="")],
            [dict(form="int", pub=8080, loc=""), dict(form="pair", pub=22, loc="127.0.0.1:2222"), dict(form="int", pub=81, loc="")],
            # one public port forwarded to several local targets (Tor spreads connections over them)
            [dict(form="str", pub=80, loc="127.0.0.1:8080"), dict(form="str", pub=80, loc="127.0.0.1:8081")],
            [dict(form="pair", pub=80, loc="127.0.0.1:8080"), dict(form="str", pub=443, loc="127.0.0.1:8443"), dict(form="pairstr", pub=80, loc="unix:/tmp/web.sock")],
            [dict(form="int", pub=80, loc=""), dict(form="int", pub=80, loc="")]]
CLIENTS = [[], [dict(name="alice", token="")], [dict(name="alice", token="YWxpY2VzZWNyZXQ"), dict(name="bob", token="")],
           [dict(name="carol", token="Y2Fyb2w"), dict(name="dave", token="ZGF2ZQ")],
           # a token the caller supplied that happens to be the empty string is still the caller's token
           [dict(name="alice", token=""), dict(name="bob", token="b0bs3kr1t"), dict(name="carol", token="", given=True)]]


def requests(tier, seed):
    rng = random.Random(seed)
    out = []
    for version, key, detach, single in itertools.product([2, 3], KEYS, [False, True], [False, True]):
        for auth_clients in [None] + CLIENTS:
            psets = PORTSETS if tier == "thorough" else [PORTSETS[(len(out) + k) % len(PORTSETS)] for k in range(2)]
            for ports in psets:
                out.append(dict(version=version, key=dict(key), detach=detach, single=single,
                                auth=auth_clients is not None, clients=[dict(c) for c in (auth_clients or [])],
                                ports=[dict(p) for p in ports], reuse=False,
                                # local ports for int-form mappings are allocated on later reactor turns (as a real reactor does)
                                asyncports=(len(out) % 2 == 1),
                                # Tor refuses the first DEL_ONION; the caller removes again
                                delfail=(len(out) % 3 == 2),
                                # non-authenticated requests: every fifth goes through Tor.create_onion_service on a Tor
                                # whose configuration is still loading, concurrently with another request
                                viator=(auth_clients is None and key["kind"] != "crlf" and len(out) % 5 == 4)))
                if auth_clients is None and key["kind"] in ("bare", "prefixed") and not out[-1]["viator"]:
                    # the same request after a history on this connection: a service from the same key was run and removed
                    # (a restart), or Tor refused the first attempt to create one
                    for h in ("removed", "refused", "single"):
                        for via_tor in ((False, True) if h != "single" else (True,)):
                            out.append(dict(out[-1], key=dict(key), clients=[], ports=[dict(p) for p in ports], history=h, delfail=False,
                                            via_tor=via_tor))
                if auth_clients:
                    # the same request, made with an auth object that has already served another service
                    out.append(dict(out[-1], key=dict(key), clients=[dict(c) for c in auth_clients],
                                    ports=[dict(p) for p in ports], reuse=True))
    return out


def run(pid, tier, seed):
    rep = common.Report(pid, tier, seed, level="model_checking")
    rep.assumptions = list(ASSUME)
    reqs = requests(tier, seed)
    recs = [oa.vector(r) for r in reqs]
    rep.cov["evaluations"] = len(recs)
    rep.cov["distinct_nontrivial"] = len(set(common.digest(r["req"]) for r in recs))
    rep.cov["rule"] = ("full product version {2,3} x key {none, discard, bare blob, prefixed blob of either type, 3 line-break variants} x "
                       "detach x single-hop x auth {none, basic with 0/1/2 clients with/without tokens} x port-mapping sets (int, pair, "
                       "string, unix-socket forms, 1-3 mappings%s); every cell goes through EphemeralOnionService.create / "
                       "EphemeralAuthenticatedOnionService.create against SimTor, then remove(); distinct by request"
                       % ("" if tier == "thorough" else "; two port sets per cell in quick"))
    traces = []
    for r in recs:
        t = json.loads(json.dumps(r))
        t["req"]["key"].pop("raw", None)
        t["steps"] = [1]
        traces.append(t)
    res, runs = tlc.validate_parallel("OnionAddTrace", "OnionAddTrace.cfg", traces, nproc=12, chunk=400, timeout=1500)
    pipeline.selftest_from(rep, "OnionAddTrace", "OnionAddTrace.cfg", traces, res)
    for r in runs:
        rep.cov["states"] += r.distinct
        rep.cov["transitions"] += r.generated
    if len(res) != len(traces) or any(x["matched"] < 0 for x in res):
        rep.broken.append("vector validation produced no verdict:\n" + (runs[0].out[-1500:] if runs else ""))
    ok = n = 0
    for rec, x in zip(recs, res):
        if x["matched"] == 1:
            ok += 1
        else:
            n += 1
            if n <= 5:
                rep.violation("ADD_ONION / custody not as requested: req=%s obs=%s" % (json.dumps(rec["req"])[:400], json.dumps(rec["obs"])[:500]),
                              dict(property=pid, module="OnionAdd", req=rec["req"]))
    rep.cov["rejected_vectors"] = n
    rep.cov["traces_validated_against_impl"] = ok
    rep.cov["samples"] = recs[3:4] + recs[-1:]
    return rep.finish()


def replay(pid, path):
    p = json.load(open(path))
    rec = oa.vector(p["req"])
    t = json.loads(json.dumps(rec))
    t["req"]["key"].pop("raw", None)
    t["steps"] = [1]
    res, r = tlc.validate_traces("OnionAddTrace", "OnionAddTrace.cfg", [t])
    if res[0]["matched"] != 1:
        print("VIOLATION property=%s replay=%s" % (pid, path))
        print("  " + json.dumps(rec["obs"])[:600])
        return 1
    print("replay: accepted")
    return 0
