"""C09: stream attachment decisions (spec/AttachM*.tla)."""
import json
import random

import common
import pipeline
import tlc
import att

ASSUME = [
    "while an attacher's asynchronous answer is outstanding Tor may report progress of the still unattached stream (CONTROLLER_WAIT, "
    "REMAP from its cache): the answer still leads to the stream's one decision",
    "an attacher's 'not a circuit' answers rotate through objects of either truth value (a string, 0, '', [], False, {}, 7, ()): "
    "all are invalid answers - reported, nothing sent",
    "the via-circuit API (Circuit.stream_via / TorCircuitEndpoint) and a user-installed attacher are not mixed, and the module-wide "
    "via-circuit attacher is not removed by the user (documented as an error in set_attacher)",
    "a BUILT circuit used by a pending via-circuit connection stays BUILT until the connection's stream has appeared; a connection "
    "may be started on a circuit that is still building (it waits; if the circuit fails the connection fails)",
    "SimTor acknowledges every command at once, except that the SETCONF installing an attacher (the user's or the via-circuit one) may be answered in a later step (ConfAck), with everything issued meanwhile waiting behind it; attacher error reports are observed at TorState._attacher_error (wrapped on the instance)",
    "Tor may refuse an ATTACHSTREAM (552) in the step that sends it; refusals of commands queued behind a held SETCONF are not explored",
    "the SOCKS endpoint of a via-circuit connection is a fake whose local address the script supplies",
    "PriorityAttacher: up to three sub-attachers with priorities 0..2, each added at most once at a time, answering immediately with "
    "no preference / a circuit / do-not-attach; the order in which they are consulted is observed by the sub-attachers themselves",
]


def after_conf(state):
    return "waitaddr" if state == "BUILT" else "waitbuilt" if state == "BUILDING" else "failed"


def rand_script(rng, n):
    cs = {1: "none", 2: "none"}
    att_ = "none"
    seen, pend = {}, set()
    via = {"k1": dict(st="idle"), "k2": dict(st="idle")}
    out = []
    tries = 0
    ended = {}
    hold = [False]
    ps = []
    prio_mode = rng.random() < 0.4         # scripts around the PriorityAttacher
    while len(out) < n and tries < 10 * n:
        tries += 1
        r = rng.random()
        if prio_mode and r < 0.22:
            x = rng.choice(["x", "y", "z"])
            if x in ps:
                if rng.random() < 0.6:
                    continue
                ps.remove(x)
                out.append(dict(a="RemSub", x=x))
            else:
                ps.append(x)
                out.append(dict(a="AddSub", x=x, prio=rng.choice([0, 1, 2])))
        elif hold[0] and r < 0.3:
            hold[0] = False
            for v in via.values():
                if v["st"] == "waitconf":
                    v["st"] = after_conf(cs[v["c"]])
            out.append(dict(a="ConfAck"))
        elif r < 0.25:
            c = rng.choice([1, 2])
            nxt = {"none": ["BUILDING"], "BUILDING": ["BUILT", "BUILT", "GONE"], "BUILT": ["GONE"], "GONE": []}[cs[c]]
            if not nxt:
                continue
            to = rng.choice(nxt)
            if to == "GONE" and cs[c] == "BUILT" and any(v["st"] in ("waitconf", "waitaddr", "reg") and v["c"] == c for v in via.values()):
                continue
            cs[c] = to
            for v in via.values():
                if v["st"] == "waitbuilt" and v["c"] == c:
                    v["st"] = "waitaddr" if to == "BUILT" else "failed"
            out.append(dict(a="CircStep", c=c, to=to))
        elif r < 0.40:
            who = rng.choice(["P", "P", "P", "A", "B", "none"] if prio_mode else ["A", "A", "B", "none"])
            if who == "B" and att_ == "none":
                continue
            if who == "none" and att_ == "V":
                continue
            late = False
            if who == "none":
                att_ = "none"
            elif who in ("A", "P") and att_ == "none":
                if hold[0]:
                    continue
                att_ = who
                late = rng.random() < 0.4
                hold[0] = late
            out.append(dict(a="SetAttacher", who=who, late=late))
        elif r < 0.75:
            free = [s for s in (1, 2, 3) if s not in seen]
            if not free:
                continue
            s = rng.choice(free)
            p = rng.choice([4001, 4002, 4003, 4001, 4002, 4003, 5001, 5002, 5003])     # (5xxx: the same number from another address)
            kind = rng.choice(["normal", "normal", "normal", "exit", "resolve"])
            if att_ == "A":
                ans, mode = rng.choice(["none", "dna", "unknown", "noncirc", "c1", "c2", "c1", "c2"]), rng.choice(["imm", "def", "coro"])
            else:
                ans, mode = "none", "imm"
            seen[s] = p
            if att_ == "P":
                sa = dict((x, rng.choice(["none", "none", "dna", "c1", "c2"])) for x in ("x", "y", "z"))
                out.append(dict(a="NewStreamP", s=s, kind=kind, p=p, sa=sa))
                continue
            if att_ == "A" and mode == "def" and kind != "exit":
                pend.add(s)
            if att_ == "V":
                for v in via.values():
                    if v["st"] == "reg" and v["p"] == p and kind != "exit":
                        v["st"] = "done"
            rf = (att_ == "A" and mode != "def" and kind != "exit" and not hold[0] and rng.random() < 0.25 and
                  (ans == "none" or (ans in ("c1", "c2") and cs[1 if ans == "c1" else 2] == "BUILT")))
            out.append(dict(a="NewStream", s=s, kind=kind, p=p, ans=ans, mode=mode, rf=rf))
        elif r < 0.78:
            # a stream we have seen fails, and is reported closed afterwards
            cand = [x for x in seen if x not in pend and ended.get(x) != "closed"]
            if not cand:
                continue
            x = rng.choice(cand)
            if ended.get(x) == "failed":
                ended[x] = "closed"
                out.append(dict(a="LateClosed", s=x))
            else:
                ended[x] = "failed"
                out.append(dict(a="StreamFailed", s=x))
        elif r < 0.84:
            if not pend:
                continue
            s = rng.choice(sorted(pend))
            if rng.random() < 0.4:
                # Tor reports progress of the still unattached stream while its answer is outstanding
                out.append(dict(a="Progress", s=s, k=rng.choice(["CONTROLLER_WAIT", "REMAP"])))
                continue
            pend.discard(s)
            out.append(dict(a="Answer", s=s))
        elif r < 0.92:
            ks = [k for k, v in via.items() if v["st"] == "idle"]
            cb = [c for c in cs if cs[c] in ("BUILT", "BUILDING")]
            if not ks or not cb or att_ in ("A", "P") or (att_ == "none" and hold[0]):
                continue
            k, c = rng.choice(ks), rng.choice(cb)
            late = att_ == "none" and rng.random() < 0.6
            via[k] = dict(st="waitconf" if late else after_conf(cs[c]), c=c)
            att_ = "V"
            out.append(dict(a="ViaConnect", k=k, c=c, late=late))
            if late:
                hold[0] = True
        else:
            ks = [k for k, v in via.items() if v["st"] == "waitaddr"]
            if not ks:
                continue
            k = rng.choice(ks)
            ports = [p for p in (4001, 4002, 4003) if p not in seen.values() and all(v.get("p") != p or v["st"] != "reg" for v in via.values())]
            if not ports:
                continue
            p = rng.choice(ports)
            via[k].update(st="reg", p=p)
            out.append(dict(a="ViaAddr", k=k, p=p))
    return out


def directed():
    """scenario scripts that random generation reaches rarely: what happens around a via-circuit connection
    that has completed (its source port is used again by an unrelated client), several connections in a row"""
    B = [dict(a="CircStep", c=1, to="BUILDING"), dict(a="CircStep", c=1, to="BUILT"),
         dict(a="CircStep", c=2, to="BUILDING"), dict(a="CircStep", c=2, to="BUILT")]
    out = []
    for late in (False, True):
        for kind2 in ("normal", "resolve", "exit"):
            s = B + [dict(a="ViaConnect", k="k1", c=1, late=late)] + ([dict(a="ConfAck")] if late else []) + [
                dict(a="ViaAddr", k="k1", p=4001),
                dict(a="NewStream", s=1, kind="normal", p=4001, ans="none", mode="imm"),      # the connection's own stream
                dict(a="NewStream", s=2, kind=kind2, p=4001, ans="none", mode="imm"),         # the port is re-used by someone else
                dict(a="ViaConnect", k="k2", c=2, late=False), dict(a="ViaAddr", k="k2", p=4002),
                dict(a="NewStream", s=3, kind="normal", p=4002, ans="none", mode="imm")]
            out.append(s)
    # streams that fail and are then reported closed, under each kind of attacher
    out.append([dict(a="SetAttacher", who="A"), dict(a="NewStream", s=1, kind="normal", p=4001, ans="none", mode="imm"),
                dict(a="StreamFailed", s=1), dict(a="LateClosed", s=1),
                dict(a="NewStream", s=2, kind="normal", p=4002, ans="c1", mode="imm"), dict(a="StreamFailed", s=2), dict(a="LateClosed", s=2)])
    out.append(B + [dict(a="ViaConnect", k="k1", c=1, late=False), dict(a="ViaAddr", k="k1", p=4001),
                    dict(a="NewStream", s=1, kind="normal", p=4001, ans="none", mode="imm"), dict(a="StreamFailed", s=1),
                    dict(a="LateClosed", s=1), dict(a="NewStream", s=2, kind="normal", p=4002, ans="none", mode="imm"),
                    dict(a="StreamFailed", s=2), dict(a="LateClosed", s=2)])
    # an unrelated stream from another source address with the same port number arrives before the connection's own
    out.append(B + [dict(a="ViaConnect", k="k1", c=1, late=False), dict(a="ViaAddr", k="k1", p=4001),
                    dict(a="NewStream", s=1, kind="normal", p=5001, ans="none", mode="imm"),
                    dict(a="NewStream", s=2, kind="normal", p=4001, ans="none", mode="imm")])
    # Tor refuses the decision command (the circuit went away inside Tor first): reported, nothing more is sent
    for mode in ("imm", "coro"):
        out.append(B + [dict(a="SetAttacher", who="A", late=False),
                        dict(a="NewStream", s=1, kind="normal", p=4001, ans="c1", mode=mode, rf=True),
                        dict(a="NewStream", s=2, kind="resolve", p=4002, ans="none", mode=mode, rf=True),
                        dict(a="NewStream", s=3, kind="normal", p=4003, ans="c2", mode=mode, rf=False)])
    out.append(B + [dict(a="SetAttacher", who="A", late=False),
                    dict(a="NewStream", s=1, kind="normal", p=4001, ans="c1", mode="def", rf=False), dict(a="Answer", s=1, rf=True),
                    dict(a="NewStream", s=2, kind="normal", p=4002, ans="c2", mode="def", rf=False), dict(a="Answer", s=2, rf=False)])
    # the attacher is removed again before Tor has answered its installation
    out.append([dict(a="SetAttacher", who="A", late=True), dict(a="SetAttacher", who="none"), dict(a="ConfAck"),
                dict(a="NewStream", s=1, kind="normal", p=4001, ans="none", mode="imm"),
                dict(a="SetAttacher", who="A", late=False), dict(a="NewStream", s=2, kind="normal", p=4002, ans="none", mode="imm")])
    out.append([dict(a="SetAttacher", who="A", late=True), dict(a="NewStream", s=1, kind="normal", p=4001, ans="none", mode="imm"),
                dict(a="SetAttacher", who="none"), dict(a="ConfAck")])
    # priority composition: every order of addition of three sub-attachers with distinct / equal priorities
    import itertools
    for order in itertools.permutations([("x", 0), ("y", 1), ("z", 2)]):
        out.append(B + [dict(a="AddSub", x=x, prio=pr) for x, pr in order] + [dict(a="SetAttacher", who="P"),
                   dict(a="NewStreamP", s=1, kind="normal", p=4001, sa=dict(x="none", y="c1", z="c2")),
                   dict(a="NewStreamP", s=2, kind="normal", p=4002, sa=dict(x="none", y="none", z="none")),
                   dict(a="RemSub", x="y"),
                   dict(a="NewStreamP", s=3, kind="resolve", p=4003, sa=dict(x="none", y="c1", z="dna"))])
    for prios in ((2, 1, 0), (1, 1, 0), (2, 0, 0), (0, 0, 0), (1, 2, 1)):
        out.append(B + [dict(a="SetAttacher", who="P")] + [dict(a="AddSub", x=x, prio=pr) for x, pr in zip("xyz", prios)] + [
                   dict(a="NewStreamP", s=1, kind="normal", p=4001, sa=dict(x="c1", y="c2", z="dna")),
                   dict(a="RemSub", x="z"), dict(a="AddSub", x="z", prio=0),
                   dict(a="NewStreamP", s=2, kind="normal", p=4002, sa=dict(x="none", y="c2", z="c1")),
                   dict(a="NewStreamP", s=3, kind="exit", p=4003, sa=dict(x="c1", y="c2", z="c1"))])
    # the second connection re-uses the first one's port after it completed
    out.append(B + [dict(a="ViaConnect", k="k1", c=1, late=False), dict(a="ViaAddr", k="k1", p=4003),
                    dict(a="NewStream", s=1, kind="normal", p=4003, ans="none", mode="imm"),
                    dict(a="NewStream", s=2, kind="normal", p=4001, ans="none", mode="imm"),
                    dict(a="CircStep", c=1, to="GONE"),
                    dict(a="NewStream", s=3, kind="normal", p=4003, ans="none", mode="imm")])
    return out


def run(pid, tier, seed):
    rep = common.Report(pid, tier, seed)
    rep.assumptions = list(ASSUME)
    pipeline.design_check(rep, "AttachM_MC", ["AttachM_MC_quick", "AttachM_MC_prio_quick"] if tier == "quick"
                          else ["AttachM_MC_quick", "AttachM_MC_prio_quick", "AttachM_MC_thorough", "AttachM_MC_prio"],
                          timeout=200 if tier == "quick" else 1200)
    rng = random.Random(seed)
    sims = pipeline.generate(rep, "AttachM_Gen", "AttachM_Gen.cfg", 400 if tier == "quick" else 4000, 30, seed)
    scripts = directed() + list(sims) + [rand_script(rng, rng.choice([10, 20, 30])) for _ in range(300 if tier == "quick" else 4000)]
    traces, seen = [], set()
    for s in scripts:
        traces.append(att.replay(s))
        acts = [e["a"] for e in s]
        if ("NewStream" in acts or "NewStreamP" in acts) and ("SetAttacher" in acts or "ViaConnect" in acts):
            seen.add(common.digest(s))
    rep.cov["evaluations"] = len(traces)
    rep.cov["distinct_nontrivial"] = len(seen)
    rep.cov["rule"] = ("stimulus scripts (set/remove attacher, new streams of 3 kinds from 3 source ports, attacher answers of 6 kinds x "
                       "immediate/Deferred/coroutine, via-circuit connections, circuits building/closing): TLC -simulate behaviours of "
                       "AttachM_Gen plus seeded random scripts; distinct by hash; non-trivial = a new stream while an attacher or via connection exists")
    ok = pipeline.validate(rep, pid, "AttachM", "AttachMTrace", "AttachMTrace.cfg", traces, chunk=150)
    rep.cov["samples"] = [dict(steps=t["steps"][:10]) for t in ok[:2]]
    return rep.finish()


def replay(pid, path):
    p = json.load(open(path))
    t = att.replay(p["script"])
    res, r = tlc.validate_traces("AttachMTrace", "AttachMTrace.cfg", [t])
    x = res[0]
    print("replay: matched %d of %d steps" % (x["matched"], x["wanted"]))
    if x["matched"] != x["wanted"]:
        print("VIOLATION property=%s replay=%s" % (pid, path))
        print("  step %d: %s" % (x["matched"] + 1, json.dumps(t["steps"][x["matched"]])[:600]))
        return 1
    return 0
