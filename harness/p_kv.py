"""C12 and C13 (spec/KvLine*.tla)."""
import json
import random

import tlc
import common
import pipeline
import kv

ASSUME12 = [
    "ctx dup: the connection is busy, the identical call and then a different one are already queued; every call gets a line of its own",
    "TLC decides every recorded SETCONF line with the KvLine grammar (kvline items, QuotedString with C escapes) and proves the "
    "grammar's reference encoder/parser agree over a bounded space; input breadth is enumerated / drawn by the Python driver",
    "round trip is demanded for keys from the config-name alphabet [A-Za-z0-9_]; for other keys only 'one line or an error'",
    "values are compared after str() (the API's documented conversion); non-ASCII values are outside the quantifier",
    "every third vector is issued while another command is in flight and an earlier set_conf waits in the queue: the call's own "
    "command line (written once its turn comes) is what is decided, and the earlier call's line must be untouched; another third is "
    "context 'refused': Tor answers the call's SETCONF with a 5xx refusal; the call fails with it and nothing further is written on its "
    "behalf (one call, one line); "
    "the second of two identical calls on one connection (a refused call must be refused again, an accepted one written again)",
    "calls of more than 2^20 bytes: every run of 1024 or more filler bytes ('Z') is cut to four bytes by the recorder, in the pairs "
    "asked for and in the bytes written alike, and the run lengths are compared in order (KvLine_MC proves the grammar blind to the "
    "length of such a run: RunBlind); TLC then decides the shortened line like any other - one line, parsing back to the pairs",
]
ASSUME13 = [
    "TLC checks both that the wire lines the harness fed are Tor's rendering of the abstract key/value set (WireOK) and that the "
    "API result equals that set (ResOK); input breadth is enumerated / drawn by the Python driver",
    "a multi-line value may come back with or without the single separator that follows 'key=' on the wire",
    "every other single-key request is made through get_info_single / get_conf_single (the bare value is compared as the value of its key)",
    "data lines that begin with the requested key itself followed by '=' are not generated (indistinguishable in-band)",
    "half of the vectors have an unsolicited 650 event (single-line, multi-line or data-block) delivered just before the command is "
    "issued or just before its reply; the expected result does not depend on it",
    "some vectors are issued behind an in-flight command whose caller has cancelled its Deferred: Tor still answers that command "
    "first, and the answer must not be taken for the vector's; some GETINFO vectors are issued twice in a row behind a busy connection "
    "(two callers asking the same): both must get the value; some are issued while a multi-line event is half received; some are "
    "fallbacks, issued from the error handler of a request Tor has just refused; some follow a completely answered incremental "
    "(per-line callback) request; during some, another control connection of the same process receives a data-block reply of its own; during some, a GETINFO for other keys is queued behind the request; some replies are cut short inside their final line by the loss of the "
    "connection (cutloss: the call must fail, not return a value made from the part that arrived); before some, the "
    "very same exchange took place (on this and on another connection) and the callers took their results apart",
]
CRIT12 = ["a", " ", "\t", '"', "\\", "=", "\r", "\n"]
CRIT13 = ["a", "=", " ", '"', "'", "2", "5", "0", ".", "O", "K"]
BLOCK_LINES = ["a", ".a", "..", ".", "k=v", "250 OK", "OK", "", " a", "x=y=z", "650 EV x", "250-mid", " OK ", "'q'", '"q"', "=", "=1", "1=v"]
# words that mean something to the protocol or to this library: as values they are plain text like any other
WORDS = ["DEFAULT", "default", "OK", "250 OK", "NULL", "None", "auto", "0", "1", "", "=", "SETCONF", "DEFAULT DEFAULT", "\"DEFAULT\""]


def vectors12(tier, seed):
    rng = random.Random(seed)
    out = []
    n = 3 if tier == "quick" else 4
    for v in kv.words(CRIT12, n):
        out.append((["Log", v], True))
    for v1 in kv.words(CRIT12, 2):
        for v2 in kv.words(CRIT12, 1 if tier == "quick" else 2):
            out.append((["K", v1, "SocksPort", v2], True))
    printable = [chr(c) for c in range(32, 127)]
    for _ in range(300 if tier == "quick" else 5000):
        npairs = rng.choice([1, 1, 2, 3, 5])
        args = []
        for i in range(npairs):
            args += [rng.choice(["Log", "SocksPort", "K_%d" % i, "HiddenServicePort"]),
                     "".join(rng.choice(printable + [" ", '"', "\\", "\t"]) for _ in range(rng.randint(0, 40)))]
        out.append((args, True))
    for _ in range(60 if tier == "quick" else 600):
        args = ["Log", "".join(rng.choice(printable + ["\r", "\n", "\r\n"]) for _ in range(rng.randint(1, 20)))]
        out.append((args, True))
    for w in WORDS:
        out += [(["Log", w], True), (["K", w, "SocksPort", "9050"], True), (["K", "x", "SocksPort", w], True)]
    out += [(["ORPort", 9001], True), (["SafeLogging", True], True), (["X", False, "Y", 0, "Z", -1], True),
            (["F", 1.5], True), (["Log", "x\r\nSIGNAL HALT"], True), (["Log", "a\nb"], True),
            (["HiddenServiceDir", "/hs1", "HiddenServicePort", "80 127.0.0.1:8080", "HiddenServiceDir", "/hs2",
              "HiddenServicePort", "80 127.0.0.1:8081"], True),
            (["Log", "notice stdout", "Log", "debug file /x y"], True),
            (["bad key", "v"], False), (["k\r\nQUIT", "v"], False), (["k=x", "v"], False), (["k\tx", "v"], False),
            (["", "v"], False), (["k\"x", "v"], False),
            # keys with white space or line breaks at their ends, in the first and in a later pair
            (["k\r\n", "v"], False), (["k\n", "v"], False), (["\nk", "v"], False), (["k ", "v"], False), ([" k", "v"], False),
            (["k\t", "v"], False), (["ControlPort", "9051", "SocksPort\r\n", "9050"], False),
            (["ControlPort", "9051", "SocksPort\n", "9050", "Log", "x"], False), (["A", "1", "\r\nB", "2"], False), (["odd"], True), (["a", "b", "c"], True)]
    # calls of more than 2^20 bytes (Tor's own limit on a command line is not the library's to enforce by dividing a
    # call: one call, one line): long runs of a filler byte, plain and inside values that need quoting
    M = 2 ** 20
    Z = "Z"
    out += [(["Log", Z * (M + 1)], True), (["Log", Z * (M - 20)], True), (["Log", "notice " + Z * (M + 5)], True),
            (["K", Z * (M // 2 + 10), "SocksPort", Z * (M // 2 + 10)], True),
            (["K", "a", "Log", Z * (3 * M), "SocksPort", "9050"], True),
            (["A", Z * 700000, "B", Z * 700000, "C", "x y"], True),
            (["Log", Z * 2000 + "\\" + Z * (M + 7) + '" ' + Z * 1500], True)]
    if tier != "quick":
        for n in (M - 9, M - 8, M - 7, M - 2, M - 1, M, 2 * M, 5 * M):
            out.append((["Log", Z * n], True))
        for _ in range(12):
            args = []
            for i in range(rng.randint(1, 6)):
                args += ["K_%d" % i, rng.choice(["", "x ", "\"", "a=b "]) + Z * rng.randint(1024, M) + rng.choice(["", " y", "\\"])]
            out.append((args, True))
    return out


def vectors13(tier, seed):
    rng = random.Random(seed)
    segs = ["whole", "bytes", "rand"]
    out = []
    n = 2 if tier == "quick" else 3
    vals = list(kv.words(CRIT13, n))
    if tier == "quick":
        vals += ["".join(rng.choice(CRIT13) for _ in range(3)) for _ in range(200)]
    i = 0
    for v in vals:
        i += 1
        out.append(("info", [("k1", False, [v])], segs[i % 3]))
        out.append(("conf", "Opt", False, [v], segs[(i + 1) % 3]))
    small = list(kv.words(CRIT13, 1)) + ["a=b", "k2=x", "250 OK", "'a'", '"a b"', "OK"]
    for v1 in small:
        for v2 in small:
            out.append(("info", [("k1", False, [v1]), ("ns/k2", False, [v2])], segs[len(out) % 3]))
            out.append(("conf", "Opt", False, [v1, v2], segs[len(out) % 3]))
    for v in small[:8]:
        out.append(("conf", "Opt", False, [v, "b", v], "whole"))
    out.append(("conf", "Opt", True, [], "whole"))
    out.append(("conf", "SocksPort", True, [], "bytes"))
    for nl in (1, 2, 3):
        import itertools
        combos = list(itertools.product(BLOCK_LINES, repeat=nl))
        if len(combos) > (250 if tier == "quick" else 4000):
            combos = rng.sample(combos, 250 if tier == "quick" else 4000)
        for ls in combos:
            out.append(("info", [("k1", True, list(ls))], segs[len(out) % 3]))
    # realistic key names: data lines that look like "<part of the key>=..." are part of the value
    for key, ls in (("desc/name/foo", ["router foo 1.2.3.4 9001 0 0", "name=foo", "desc=x"]), ("md/id/ABCD", ["onion-key", "id=ed25519 xyz"]),
                    ("dir/status-vote/current/consensus", ["network-status-version 3", "status=ok", "s=Fast"]),
                    ("config-text", ["=", "SocksPort 9050", "config=1", "text=a b"]), ("k1", ["k=v", "1=v", "=k1"])):
        out.append(("info", [(key, True, ls)], segs[len(out) % 3]))
        out.append(("info", [(key, True, ls[::-1])], segs[len(out) % 3]))
    for w in WORDS:
        out.append(("info", [("k1", False, [w])], segs[len(out) % 3]))
        if "\"" not in w:
            out.append(("conf", "Opt", False, [w], segs[len(out) % 3]))
    printable = [chr(c) for c in range(32, 127)]
    for _ in range(150 if tier == "quick" else 3000):
        v = "".join(rng.choice(printable) for _ in range(rng.randint(1, 60)))
        out.append(("info", [("k1", False, [v])], "rand"))
        out.append(("conf", "Opt", False, [v] * rng.randint(1, 3), "rand"))
        ls = ["".join(rng.choice(printable) for _ in range(rng.randint(0, 30))) for _ in range(rng.randint(1, 6))]
        ls = [l for l in ls if not l.startswith("k1=")]
        out.append(("info", [("k1", True, ls)], "rand"))
    return out


def run(pid, tier, seed):
    rep = common.Report(pid, tier, seed)
    rng = random.Random(seed + 7)
    if pid == "C12":
        rep.assumptions = list(ASSUME12)
        rep.tlc("KvLine_MC (reference encoder/parser round trip)",
                tlc.run_tlc("KvLine_MC", "KvLine_MC_%s.cfg" % tier, workers=16, timeout=900))
        recs = []
        for i, (a, k) in enumerate(vectors12(tier, seed)):
            # invalid keys go through every context, the others rotate
            every = not k or any(isinstance(x, str) and len(x) > 1000 for x in a)      # invalid keys and long calls: every context
            for ctx in (["idle", "repeat", "queued", "dup", "refused"] if every else [["idle", "repeat", "queued", "dup", "refused"][i % 5]]):
                recs.append(kv.setconf_vector(a, k, ctx))
        key = lambda r: json.dumps([r["args"], r["ctx"]])
    else:
        rep.assumptions = list(ASSUME13)
        rep.tlc("KvLine_MC (grammar round trip)", tlc.run_tlc("KvLine_MC", "KvLine_MC_quick.cfg", workers=16, timeout=900))
        recs = []
        noises = ["none"] * 6 + ["%s@%s" % (sh, at) for sh in ("midline", "block", "single") for at in ("before", "during")] + ["cancel@before"] * 2 + ["twin@before"] * 2 + ["split@before"] * 2 + ["fallback@before"] * 2 + ["incremental@before"] * 2 + ["otherconn@during"] * 2 + ["spoiled@before"] * 3 + ["cutloss%d@end" % k for k in (1, 2, 3, 4, 5, 7)] + ["queuedinfo@during"] * 3
        for i, v in enumerate(vectors13(tier, seed)):
            noise = rng.choice(noises)
            # every other single-key request goes through the single-value form of the API
            api = "single" if i % 2 else "dict"
            if v[0] == "info":
                recs.append(kv.getinfo_vector(v[1], v[2], rng, noise, api))
            else:
                recs.append(kv.getconf_vector(v[1], v[2], v[3], v[4], rng, noise, api))
        key = lambda r: json.dumps([r["cmd"], r["kvs"], r["key"], r["unset"], r["vals"]])
    rep.cov["evaluations"] = len(recs)
    rep.cov["distinct_nontrivial"] = len(set(key(r) for r in recs))
    rep.cov["rule"] = ("C12: set_conf argument lists - exhaustive short values over {a,SP,TAB,\",\\,=,CR,LF}, 1-2 pairs, random printable "
                       "values up to 40 chars, CR/LF injections, repeated keys, ints/bools, invalid keys, calls of 1 to 5 MiB; C13: GETINFO single-line values "
                       "(exhaustive short strings over {a,=,SP,\",',2,5,0,.,O,K} and random printable text), two keys, data blocks of 1-3 "
                       "lines incl. dot-stuffed / status look-alike / k=v lines, GETCONF unset / empty / 1..3 values; under whole, "
                       "byte-at-a-time and random segmentation; distinct by input")
    traces = [dict((k, v) for k, v in r.items() if k not in ("args", "seg", "noise", "ctx", "api")) for r in recs]
    for t in traces:
        t["steps"] = [1]
    res, runs = tlc.validate_parallel("KvLineTrace", "KvLineTrace.cfg", traces, nproc=14, chunk=1500, timeout=3000)
    pipeline.selftest_from(rep, "KvLineTrace", "KvLineTrace.cfg", traces, res, keys=("res", "wrote", "err"))
    for r in runs:
        rep.cov["states"] += r.distinct
        rep.cov["transitions"] += r.generated
    if len(res) != len(traces) or any(x["matched"] < 0 for x in res):
        rep.broken.append("vector validation produced no verdict:\n" + runs[0].out[-1500:])
    known = dict((f["id"], f) for f in common.open_findings(pid))
    ok = nviol = 0
    for rec, x in zip(recs, res):
        if x["matched"] == 2:
            rep.broken.append("harness rendered wire lines that are not Tor's rendering: %s" % json.dumps(rec)[:400])
        elif x["matched"] == 1 and not x["devs"]:
            ok += 1
        elif x["matched"] == 1 and all(d in known for d in x["devs"]):
            for d in x["devs"]:
                rep.known_finding(d, known[d]["what"])
            ok += 1
        else:
            nviol += 1
            if nviol <= 5:
                show = dict((k, v) for k, v in rec.items())
                rep.violation(describe(rec), dict(property=pid, module="KvLine", vector=rec))
    rep.cov["rejected_vectors"] = nviol
    rep.cov["traces_validated_against_impl"] = ok
    rep.cov["samples"] = [readable(r) for r in recs[5:7] + recs[-1:]]
    return rep.finish()


def txt(bs):
    return bytes(bs).decode("latin-1")


def readable(rec):
    if rec["p"] == "C12":
        return dict(args=rec["args"], wrote=txt(rec["wrote"]), err=rec["err"])
    return dict(cmd=rec["cmd"], wire=[txt(w) for w in rec["wire"]],
                result=[dict(k=txt(r["k"]), t=r["t"], v=[txt(x) for x in r["v"]]) for r in rec["res"]])


def describe(rec):
    return "vector rejected by the KvLine grammar: " + json.dumps(readable(rec))[:600]


def replay(pid, path):
    p = json.load(open(path))
    v = p["vector"]
    if v["p"] == "C12":
        rec = kv.setconf_vector([kv.dec_arg(a) for a in v["args"]], v["keysok"], v.get("ctx", "idle"))
    elif v["cmd"] == "GETINFO":
        rec = kv.getinfo_vector([(txt(k["key"]), k["block"], [txt(l) for l in k["lines"]]) for k in v["kvs"]], v.get("seg", "whole"), random.Random(0),
                                v.get("noise", "none"), v.get("api", "dict"))
    else:
        rec = kv.getconf_vector(txt(v["key"]), v["unset"], [txt(x) for x in v["vals"]], v.get("seg", "whole"), random.Random(0),
                                v.get("noise", "none"), v.get("api", "dict"))
    t = dict((k, x) for k, x in rec.items() if k not in ("args", "seg", "noise", "ctx", "api"))
    t["steps"] = [1]
    res, r = tlc.validate_traces("KvLineTrace", "KvLineTrace.cfg", [t])
    x = res[0]
    known = set(f["id"] for f in common.open_findings(pid))
    if x["matched"] != 1 or (set(x["devs"]) - known):
        print("VIOLATION property=%s replay=%s" % (pid, path))
        print("  " + json.dumps(readable(rec))[:600])
        return 1
    print("replay: accepted", x)
    return 0
