"""Replay Socks scenarios into the real SOCKS client (socks.py) through its
public entry points (TorSocksEndpoint.connect, socks.resolve, socks.resolve_ptr)
and record the projection SocksTrace.tla compares with the model."""
import ipaddress
import os
import socket
import sys

REPO = os.environ.get("VERIF_REPO", "/repo")
sys.path.insert(0, REPO)

from twisted.internet import defer, protocol, error, interfaces   # noqa: E402
from twisted.python import failure, log                            # noqa: E402
from twisted.test import proto_helpers                              # noqa: E402
from zope.interface import implementer                              # noqa: E402

import txtorcon                                                      # noqa: E402
from txtorcon import socks                                           # noqa: E402

assert os.path.abspath(txtorcon.__file__).startswith(os.path.abspath(REPO)), txtorcon.__file__

# RFC 1928 / Tor error classes by reply code (written here from the RFC, not read from the code)
CLASS_BY_CODE = {1: "GeneralServerFailureError", 2: "ConnectionNotAllowedError", 3: "NetworkUnreachableError",
                 4: "HostUnreachableError", 5: "ConnectionRefusedError", 6: "TtlExpiredError",
                 7: "CommandNotSupportedError", 8: "AddressTypeNotSupportedError"}


class App(protocol.Protocol):
    def __init__(self):
        self.got = b""
        self.lost = 0

    reenter = None      # (set by the harness) called once, while a segment is being handed over

    def dataReceived(self, d):
        self.got += d
        if self.reenter is not None:
            f, self.reenter = self.reenter, None
            f()

    def connectionLost(self, reason):
        self.lost += 1


class HelloApp(App):
    """an application protocol that speaks first (as TLS or HTTP clients do): it writes when its connection is made"""
    def connectionMade(self):
        self.transport.write(b"H")


class AppFactory(protocol.Factory):
    def __init__(self, hello=False):
        self.built = []
        self.hello = hello

    def buildProtocol(self, addr):
        p = HelloApp() if self.hello else App()
        self.built.append(p)
        return p


@implementer(interfaces.IStreamClientEndpoint)
class FakeProxyEndpoint(object):
    def __init__(self):
        self.proto = None
        self.tr = None

    transport_factory = proto_helpers.StringTransport

    def connect(self, factory):
        self.proto = factory.buildProtocol(None)
        self.tr = self.transport_factory()
        self.tr.proto = self.proto
        self.proto.makeConnection(self.tr)
        return defer.succeed(self.proto)


class SyncLossTransport(proto_helpers.StringTransport):
    """reports the loss of the connection to the protocol from inside loseConnection(), as Twisted's
    StringTransportWithDisconnection does"""
    connected = True

    def loseConnection(self):
        if self.connected:
            self.connected = False
            self.proto.connectionLost(failure.Failure(error.ConnectionDone("Bye.")))


V4 = b"\x01\x02\x03\x04"
V6 = bytes(range(0x20, 0x30))
NAME = b"abc" + (b"defghijklmnopqrstuvwxyz0123456789" * 8)[:252]      # 255 bytes: the longest name a reply can carry


def stream_for(scen):
    mrep = {"ok": b"\x05\x00", "badver": b"\x04\x00", "badmethod": b"\x05\xff", "method2": b"\x05\x02"}[scen["mrep"]]
    ver = b"\x05" if scen["rver"] else b"\x04"
    head = ver + bytes([scen["code"]]) + b"\x00"
    if scen["atyp"] == "v4":
        rep = head + b"\x01" + V4 + b"\x1f\x90"
    elif scen["atyp"] == "v6":
        rep = head + b"\x04" + V6 + b"\x1f\x90"
    elif scen["atyp"] == "dom":
        name = NAME[:scen["alen"]]
        rep = head + b"\x03" + bytes([len(name)]) + name + b"\x00\x00"
    else:
        rep = head + b"\x09" + b"\x00\x00\x00\x00" + b"\x00\x00"
    app = bytes(range(0x41, 0x41 + scen["napp"]))
    return mrep, rep, app


class Run(object):
    def __init__(self, scen, hello=False, scale=1, sync=False):
        self.scen = scen
        self.sync = sync        # the transport reports the loss from inside loseConnection()
        self.hello = hello
        # scale: one byte of application data in the model stands for that many bytes on the wire (the application's
        # first segments may be far longer than any SOCKS reply)
        self.scale = scale
        self.mrep, self.rep, self.appbytes = stream_for(scen)
        self.appbytes = b"".join(bytes([b]) * scale for b in self.appbytes)
        self.stream = self.mrep + self.rep + self.appbytes
        self.pos = 0
        self.ep = FakeProxyEndpoint()
        if sync:
            self.ep.transport_factory = SyncLossTransport
        self.appf = AppFactory(hello)
        self.fired = []
        self.exc = False
        self.appw = 0
        self.errors = []
        if scen["req"] == "CONNECT":
            d = socks.TorSocksEndpoint(self.ep, "example.com", 8080).connect(self.appf)
        elif scen["req"] == "RESOLVE":
            d = socks.resolve(self.ep, "example.com")
        else:
            d = socks.resolve_ptr(self.ep, "1.2.3.4")
        self.nest = 0

        def connected(v):
            # the application's "connected" callback: with nest > 0 it causes more of the stream to arrive while it runs
            self.fired.append(v)
            if self.nest and not isinstance(v, failure.Failure):
                k, self.nest = self.nest, 0
                chunk = self.take(k)
                self.proto.dataReceived(chunk)
            else:
                self.nest = 0
        d.addBoth(connected)
        self.proto, self.tr = self.ep.proto, self.ep.tr

    def obs(self):
        out = self.tr.value()
        sent_req = len(out) > 3 and out[:3] == b"\x05\x01\x00"
        if not out.startswith(b"\x05\x01\x00"):
            sent_req = True if len(out) else False
            self.errors.append("first message is not 05 01 00: %r" % out[:8])
            self.exc = True
        app = self.appf.built[0] if self.appf.built else None
        if len(self.appf.built) > 1:
            self.exc = True
        appn = 0
        applost = False
        if app is not None:
            start = len(self.mrep) + len(self.rep)
            want = self.stream[start:start + len(app.got)]
            appn = len(app.got) // self.scale if (app.got == want and len(app.got) % self.scale == 0) else -1
            applost = app.lost > 0
            if app.lost > 1:
                self.exc = True
        # application writes appear on the same transport, after the request
        appw = 0
        tail = out[3:]
        if self.appw:
            appw = len(tail) - len(tail.rstrip(b"W"))
        if self.hello and app is not None:
            # the application's own first write follows the complete SOCKS request (nothing of it goes out earlier)
            body = tail.rstrip(b"W")
            if not body.endswith(b"H") or body.count(b"H") != 1:
                self.exc = True
                self.errors.append("the application's first write is not right after the SOCKS request: %r" % out[:40])
        done = dict(k="p", ek="", n=len(self.fired))
        if self.fired:
            v = self.fired[0]
            if isinstance(v, failure.Failure):
                done["k"] = "err"
                done["ek"] = self.errkind(v)
            else:
                done["k"] = "ok"
                done["ek"] = self.okkind(v, app)
        return dict(sentReq=bool(sent_req), app=app is not None, appN=appn, appW=appw, done=done,
                    closed=bool(self.tr.disconnecting or not getattr(self.tr, "connected", True)), appLost=applost, exc=self.exc)

    def errkind(self, f):
        e = f.value
        if not isinstance(e, socks.SocksError):
            self.errors.append(f.getTraceback())
            return "other"
        code = e.code
        name = type(e).__name__
        if code in CLASS_BY_CODE and name == CLASS_BY_CODE[code]:
            return "c%d" % code
        if name == "SocksError" and code is not None:
            return "g%d" % code
        if name == "SocksError":
            return "socks"
        return "wrongclass:%s:%s" % (name, code)

    def okkind(self, v, app):
        if self.scen["req"] == "CONNECT":
            return "proto" if (app is not None and v is app) else "notproto"
        if isinstance(v, bytes):
            v = v.decode("latin-1")
        if self.scen["atyp"] == "v4":
            return "val" if v == "1.2.3.4" else "badval:%r" % (v,)
        if self.scen["atyp"] == "v6":
            try:
                ok = ipaddress.ip_address(v) == ipaddress.ip_address(socket.inet_ntop(socket.AF_INET6, V6))
            except Exception:
                ok = False
            return "val" if ok else "badval:%r" % (v,)
        return "val" if v == NAME[:self.scen["alen"]].decode() else "badval:%r" % (v,)

    def take(self, n):
        """the next n bytes of the model's stream, as bytes on the wire"""
        r = len(self.mrep) + len(self.rep)

        def conc(a):
            return a if a <= r else r + (a - r) * self.scale
        chunk = self.stream[conc(self.pos):conc(self.pos + n)]
        self.pos += n
        return chunk

    def step(self, e):
        a = e["a"]
        try:
            if a == "DeliverReentrant":
                # while the application is handed these bytes, its answer makes the peer's next bytes arrive
                chunk = self.take(e["n"])
                more = self.take(e["k"])
                self.appf.built[0].reenter = lambda: self.proto.dataReceived(more)
                self.proto.dataReceived(chunk)
            elif a in ("Deliver", "DeliverNested"):
                chunk = self.take(e["n"])
                self.nest = e.get("k", 0)
                try:
                    self.proto.dataReceived(chunk)
                except BaseException:
                    # Twisted logs the error and drops the connection
                    self.exc = True
                    self.errors.append(failure.Failure().getTraceback())
                    self.proto.connectionLost(failure.Failure(error.ConnectionLost("after exception")))
            elif a == "Disconnect":
                if self.sync:
                    self.tr.connected = False       # (the peer went away: hanging up later is a no-op)
                self.proto.connectionLost(failure.Failure(error.ConnectionDone()))
            elif a == "AppClose":
                self.appf.built[0].transport.loseConnection()
            elif a == "AppWrite":
                self.appw += 1
                self.appf.built[0].transport.write(b"W")
        except BaseException:
            self.exc = True
            self.errors.append(failure.Failure().getTraceback())
        return self.obs()


def replay(scen, script, hello=False, scale=1, sync=False):
    run = Run(scen, hello, scale, sync)
    steps = []
    for e in script:
        s = dict(e)
        s["obs"] = run.step(e)
        steps.append(s)
        if s["obs"]["exc"]:
            break       # the connection was dropped after the exception; nothing more can happen on it
    return dict(scen=scen, steps=steps, hello=bool(hello), scale=scale, sync=bool(sync), errors=run.errors[:2])


def total(scen):
    m, r, a = stream_for(scen)
    return len(m) + len(r) + len(a)


def scenarios(codes, napps=(0, 3)):
    out = []
    base = dict(rver=True, code=0, atyp="v4", alen=1, napp=0)
    for req in ("CONNECT", "RESOLVE", "RESOLVE_PTR"):
        for mrep in ("badver", "badmethod", "method2"):
            out.append(dict(base, req=req, mrep=mrep))
        out.append(dict(base, req=req, mrep="ok", rver=False))
        for code in codes:
            atyps = ["v4", "v6", "unk"] if req == "CONNECT" else ["v4", "v6", "dom", "unk"]
            for atyp in atyps:
                for alen in ((1, 3) if atyp == "dom" else (1,)):
                    for napp in (napps if req == "CONNECT" else (0,)):
                        out.append(dict(req=req, mrep="ok", rver=True, code=code, atyp=atyp, alen=alen, napp=napp))
    # names of 127 to 255 bytes in a resolve answer (the length byte's top bit set from 128 on)
    for req in ("RESOLVE", "RESOLVE_PTR"):
        for alen in (127, 128, 200, 255):
            out.append(dict(req=req, mrep="ok", rver=True, code=0, atyp="dom", alen=alen, napp=0))
    return out


def chunkings(n, mode, rng=None):
    """lists of chunk sizes summing to n"""
    if mode == "whole":
        return [[n]]
    if mode == "bytes":
        return [[1] * n]
    if mode == "longcut":
        return [[k, n - k] for k in (3, 6, 7, 9, 10, 11, 12, n // 2, n - 3, n - 1)]
    if mode == "cut1":
        return [[k, n - k] for k in range(1, n)]
    if mode == "cut2":
        return [[a, b - a, n - b] for a in range(1, n) for b in range(a + 1, n)]
    if mode == "rand":
        out = []
        for _ in range(3):
            sizes, left = [], n
            while left:
                k = rng.randint(1, left)
                sizes.append(k)
                left -= k
            out.append(sizes)
        return out
    raise ValueError(mode)


class _Sink(object):
    def __call__(self, ev):
        pass


log.startLoggingWithObserver(_Sink(), setStdout=False)
