"""C15: replay OnionUp behaviours into the real onion-service creation code."""
import os
import shutil
import sys
import tempfile

REPO = os.environ.get("VERIF_REPO", "/repo")
sys.path.insert(0, REPO)

from twisted.python import failure, log                   # noqa: E402
from twisted.test import proto_helpers                    # noqa: E402

import txtorcon                                            # noqa: E402
from txtorcon import TorControlProtocol, TorConfig         # noqa: E402
from txtorcon.onion import EphemeralOnionService, FilesystemOnionService   # noqa: E402

import simtor                                              # noqa: E402

assert os.path.abspath(txtorcon.__file__).startswith(os.path.abspath(REPO)), txtorcon.__file__

IDS = {"me": "meaaaaaaaaaaaaaa", "other": "otherbbbbbbbbbbb"}
DIRS = {"d1": "$" + "1A" * 20, "d2": "$" + "2B" * 20, "d3": "$" + "3C" * 20, "d4": "$" + "4D" * 20}


class Run(object):
    def __init__(self, mode, kind):
        self.mode, self.kind = mode, kind
        self.proto = TorControlProtocol()
        self.tr = proto_helpers.StringTransport()
        self.sim = simtor.SimTor(self.proto, self.tr)
        self.sim.version = "0.4.8.0"
        self.sim.info.update({"config/names": ["Nickname String"], "config/defaults": ["Nickname Unnamed"],
                              "onions/current": "", "onions/detached": ""})
        self.sim.handlers["ADD_ONION"] = lambda line: ("250-ServiceID=%s\r\n250-PrivateKey=ED25519-V3:c29tZWtleQ==\r\n250 OK\r\n" % IDS["me"]).encode()
        self.proto.makeConnection(self.tr)
        self.sim.pump()
        d = TorConfig.from_protocol(self.proto)
        self.sim.pump()
        self.config = d.result
        self.sim.hold = lambda line: line.startswith("ADD_ONION") or line.startswith("SETCONF HiddenService")
        self.reactor = proto_helpers.MemoryReactorClock()
        self.fired = []
        self.exc = False
        self.errors = []
        self.tmp = None
        await_all = True if mode == "all" else (None if kind == "eph" else False)
        try:
            if kind == "eph":
                d = EphemeralOnionService.create(self.reactor, self.config, ["80 127.0.0.1:8080"], version=3,
                                                 await_all_uploads=await_all)
            else:
                self.tmp = tempfile.mkdtemp(prefix="verif-hs-")
                d = FilesystemOnionService.create(self.reactor, self.config, self.tmp, ["80 127.0.0.1:8080"], version=3,
                                                  await_all_uploads=await_all)
            d.addBoth(self.fired.append)
            self.sim.pump()
        except Exception:
            self.exc = True
            self.errors.append(failure.Failure().getTraceback())

    def step(self, e):
        a = e["a"]
        try:
            if a == "Reply":
                if self.kind == "fs":
                    with open(os.path.join(self.tmp, "hostname"), "w") as f:
                        f.write(IDS["me"] + ".onion\n")
                self.sim.release()
            else:
                sid, d = IDS[e["s"]], DIRS[e["d"]]
                if a == "Upload":
                    line = "650 HS_DESC UPLOAD %s UNKNOWN %s desc%s\r\n" % (sid, d, e["d"])
                elif a == "Uploaded":
                    line = "650 HS_DESC UPLOADED %s UNKNOWN %s\r\n" % (sid, d)
                else:
                    line = "650 HS_DESC FAILED %s UNKNOWN %s REASON=UPLOAD_REJECTED\r\n" % (sid, d)
                self.sim.event(line)
        except Exception:
            self.exc = True
            self.errors.append(failure.Failure().getTraceback())
        return self.obs()

    def obs(self):
        created = "p"
        if self.fired:
            created = "err" if isinstance(self.fired[0], failure.Failure) else "ok"
        return dict(created=created, n=len(self.fired), subscribed="HS_DESC" in self.proto.events, exc=self.exc)

    def close(self):
        if self.tmp:
            shutil.rmtree(self.tmp, True)


def replay(script, mode, kind):
    run = Run(mode, kind)
    steps = []
    for e in script:
        s = dict(e)
        s["obs"] = run.step(e)
        steps.append(s)
        if run.exc:
            break
    run.close()
    return dict(steps=steps, mode=mode, kind=kind, errors=run.errors[:2])


class _Sink(object):
    def __call__(self, ev):
        pass


log.startLoggingWithObserver(_Sink(), setStdout=False)
