"""C15: replay OnionUp behaviours into the real onion-service creation code."""
import os
import shutil
import sys
import tempfile

REPO = os.environ.get("VERIF_REPO", "/repo")
sys.path.insert(0, REPO)

from twisted.internet import error                         # noqa: E402
from twisted.python import failure, log                   # noqa: E402
from twisted.test import proto_helpers                    # noqa: E402

import txtorcon                                            # noqa: E402
from txtorcon import TorControlProtocol, TorConfig         # noqa: E402
from txtorcon.onion import EphemeralOnionService, FilesystemOnionService   # noqa: E402

import simtor                                              # noqa: E402

assert os.path.abspath(txtorcon.__file__).startswith(os.path.abspath(REPO)), txtorcon.__file__

IDS = {"me": "meaaaaaaaaaaaaaa", "other": "otherbbbbbbbbbbb"}
DIRS = {"d1": "$" + "1A" * 20, "d2": "$" + "2B" * 20, "d3": "$" + "3C" * 20, "d4": "$" + "4D" * 20}


class Run(object):
    def __init__(self, mode, kind, prelude=False, he=False, progress=False):
        self.mode, self.kind, self.prelude, self.he = mode, kind, prelude, he
        self.progress_calls = []
        pcb = (lambda *a: self.progress_calls.append(a)) if progress else None
        assert not he or kind == "fs"
        self.proto = TorControlProtocol()
        self.tr = proto_helpers.StringTransport()
        self.sim = simtor.SimTor(self.proto, self.tr)
        self.sim.version = "0.4.8.0"
        self.sim.info.update({"config/names": ["Nickname String"], "config/defaults": ["Nickname Unnamed"],
                              "onions/current": "", "onions/detached": ""})
        self.nadd = 0

        def add_onion(line):
            self.nadd += 1
            sid = "previousprevious" if (self.prelude is True and self.nadd == 1) else IDS["me"]
            return ("250-ServiceID=%s\r\n250-PrivateKey=ED25519-V3:c29tZWtleQ==\r\n250 OK\r\n" % sid).encode()
        self.sim.handlers["ADD_ONION"] = add_onion
        self.proto.makeConnection(self.tr)
        self.sim.pump()
        d = TorConfig.from_protocol(self.proto)
        self.sim.pump()
        self.config = d.result
        self.reactor = proto_helpers.MemoryReactorClock()
        self.hold_se = False
        if prelude == "listener":
            # the application has an HS_DESC listener of its own on this connection
            self.proto.add_event_listener("HS_DESC", lambda text: None)
            self.sim.pump()
            prelude = False
        if prelude is True:
            # an earlier service has just been created on this connection: its descriptor wait is over, the SETEVENTS
            # that gives up HS_DESC is still unanswered when the creation under test starts
            prev = EphemeralOnionService.create(self.reactor, self.config, ["81 127.0.0.1:8081"], version=3)
            prev.addErrback(lambda f: None)
            self.sim.pump()
            self.sim.hold = lambda line: self.hold_se and line.startswith("SETEVENTS")
            self.sim.event("650 HS_DESC UPLOAD previousprevious UNKNOWN $%s descp\r\n" % ("9E" * 20))
            self.hold_se = True
            self.sim.event("650 HS_DESC UPLOADED previousprevious UNKNOWN $%s\r\n" % ("9E" * 20))
        self.sim.hold = lambda line: (line.startswith("ADD_ONION") or line.startswith("SETCONF HiddenService") or
                                      (self.hold_se and line.startswith("SETEVENTS")))
        self.fired = []
        self.exc = False
        self.errors = []
        self.tmp = None
        await_all = True if mode == "all" else (None if kind == "eph" else False)
        try:
            if kind == "eph":
                d = EphemeralOnionService.create(self.reactor, self.config, ["80 127.0.0.1:8080"], version=3,
                                                 await_all_uploads=await_all, progress=pcb)
            else:
                self.tmp = tempfile.mkdtemp(prefix="verif-hs-")
                if he:
                    # a directory Tor has served before: the hostname file is there before Tor answers
                    with open(os.path.join(self.tmp, "hostname"), "w") as f:
                        f.write(IDS["me"] + ".onion\n")
                d = FilesystemOnionService.create(self.reactor, self.config, self.tmp, ["80 127.0.0.1:8080"], version=3,
                                                  await_all_uploads=await_all, progress=pcb)
            d.addBoth(self.fired.append)
            self.sim.pump()
        except Exception:
            self.exc = True
            self.errors.append(failure.Failure().getTraceback())

    def step(self, e):
        a = e["a"]
        try:
            if self.hold_se:
                # Tor answers the earlier service's unsubscription (and then whatever queued behind it)
                self.hold_se = False
                self.sim.release()
            if a == "Lose":
                self.proto.connectionLost(failure.Failure(error.ConnectionLost("injected")))
            elif a == "Refuse":
                self.sim.release(b"512 Bad arguments: refused\r\n" if self.kind == "eph" else b"513 Unacceptable option value: refused\r\n")
            elif a == "Reply":
                if self.kind == "fs":
                    with open(os.path.join(self.tmp, "hostname"), "w") as f:
                        f.write(IDS["me"] + ".onion\n")
                self.sim.release()
            else:
                sid, d = IDS[e["s"]], DIRS[e["d"]]
                if a == "Upload":
                    line = "650 HS_DESC UPLOAD %s UNKNOWN %s desc%s\r\n" % (sid, d, e["d"])
                elif a == "FetchFailed":
                    line = "650 HS_DESC FAILED %s NO_AUTH %s REASON=NOT_FOUND\r\n" % (sid, d)
                elif a == "Notice":
                    if e["k"] == "CREATED":
                        line = "650 HS_DESC CREATED %s UNKNOWN UNKNOWN desc%s REPLICA=0\r\n" % (sid, e["d"])
                    else:
                        line = "650 HS_DESC %s %s NO_AUTH %s desc%s\r\n" % (e["k"], sid, d, e["d"])
                elif a in ("Uploaded", "UploadedAgain"):
                    line = "650 HS_DESC UPLOADED %s UNKNOWN %s\r\n" % (sid, d)
                else:
                    # (Tor gives several reasons for a failed upload: the directory rejected it, or could not be reached)
                    self.nfail = getattr(self, "nfail", 0) + 1
                    reason = ["REASON=UPLOAD_REJECTED", "REASON=UNEXPECTED", "REASON=UPLOAD_REJECTED", "REASON=UNEXPECTED"][self.nfail % 4]
                    line = "650 HS_DESC FAILED %s UNKNOWN %s desc%s %s\r\n" % (sid, d, e["d"], reason)
                self.sim.event(line)
        except Exception:
            self.exc = True
            self.errors.append(failure.Failure().getTraceback())
        return self.obs()

    def obs(self):
        created = "p"
        if self.fired:
            created = "err" if isinstance(self.fired[0], failure.Failure) else "ok"
        ev = self.proto.events.get("HS_DESC")
        if self.prelude == "listener":
            # the event stays subscribed because of the application's own listener: what counts is whether the
            # creation's listener is still registered next to it
            subscribed = ev is not None and len(ev.callbacks) > 1
        else:
            subscribed = ev is not None
        return dict(created=created, n=len(self.fired), subscribed=subscribed, exc=self.exc)

    def close(self):
        if self.tmp:
            shutil.rmtree(self.tmp, True)


def replay(script, mode, kind, prelude=False, he=False, progress=False):
    run = Run(mode, kind, prelude, he, progress)
    steps = []
    for e in script:
        s = dict(e)
        s["obs"] = run.step(e)
        steps.append(s)
        if run.exc:
            break
    run.close()
    return dict(steps=steps, mode=mode, kind=kind, prelude=prelude, he=he, progress=progress, errors=run.errors[:2])


class _Sink(object):
    def __call__(self, ev):
        pass


log.startLoggingWithObserver(_Sink(), setStdout=False)
