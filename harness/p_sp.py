"""C18: choosing a SOCKS port never alters Tor's existing SOCKS listeners (spec/SocksPort*.tla)."""
import itertools
import json

import common
import pipeline
import tlc
import sp

ASSUME = [
    "requests through TorConfig.create_socks_endpoint are also made while an unrelated option has an unsaved edit pending: a configured "
    "port is still used without anything being sent",
    "TLC decides every recorded vector with SocksPort.Holds18a / Holds18b; the configurations are enumerated by the Python driver",
    "through TorConfig.create_socks_endpoint the requested value is also a configured line in full, a loopback host:port listener's bare "
    "port, an absent port with option words, and every such request is also made twice in a row; the internal helper "
    "_create_socks_endpoint (which the library itself only calls without a requested value) is driven with first-word requests only",
    "where a configured port serves a request made through Tor._default_socks_endpoint / _create_socks_endpoint, the same request is also "
    "made twice at the same time (the second before Tor has answered anything of the first): both get that port, nothing is changed",
    "chain vectors: on one TorConfig a port is requested and added, back to back with one that Tor refuses, Tor announcing what it "
    "accepted before its 250 OK; the request under test is a third, new port",
    "the well-known-port fallback is also exercised on an endpoint object that has connected before under other conditions (prior)",
    "existing configurations: unset with the built-in default in force, 1-3 explicit lines in TCP / host:port / unix forms with and "
    "without option words, 'SOCKSPort 0'; requested: none, a configured value, an unconfigured value; through "
    "Tor._default_socks_endpoint / _create_socks_endpoint (also on a Tor object with an attached TorConfig through which a refused "
    "SOCKSPort change was attempted) and through TorConfig.create_socks_endpoint",
    "a Tor that reports neither SOCKSPort nor a built-in default (old versions) is not explored; a Tor that reports the default as in "
    "force but refuses the follow-up lookup of its value is: the configuration must then stay untouched",
    "fallback: outcomes ok / connection error / other error / SOCKS request refused after the TCP connection was made / hang-up during "
    "the SOCKS negotiation, for each of the well-known ports 9050, 9150",
]
POOL = ["9050", "9050 IsolateDestAddr", "9150 IPv6Traffic PreferIPv6 KeepAliveIsolateSOCKSAuth", "127.0.0.1:9052",
        "10.0.0.5:9053 IsolateClientAddr", "unix:/tmp/tor/socks.sock", "unix:/tmp/s2 WorldWritable"]
# lines this client cannot turn into an endpoint (IPv6 listener, automatic port): never usable, always re-listed verbatim
UNUSABLE = ["[::1]:9050", "auto", "[::1]:9150 IsolateDestAddr"]


def configurations(tier):
    out = [dict(lines=[], default="9050"), dict(lines=["0"], default="9050"), dict(lines=["0", "0"], default="9050")]
    for n in (1, 2, 3):
        for c in itertools.permutations(UNUSABLE, n):
            out.append(dict(lines=list(c), default="9050"))
    for u in UNUSABLE:
        for x in POOL[:4]:
            out.append(dict(lines=[u, x], default="9050"))
            out.append(dict(lines=[x, u], default="9050"))
    for n in (1, 2, 3):
        combos = list(itertools.permutations(POOL, n))
        if tier == "quick":
            combos = combos[::7] if n == 3 else combos[::2] if n == 2 else combos
        for c in combos:
            firsts = [x.split()[0] for x in c]
            if len(set(firsts)) == len(firsts):
                out.append(dict(lines=list(c), default="9050"))
    return out


def run(pid, tier, seed):
    rep = common.Report(pid, tier, seed)
    rep.assumptions = list(ASSUME)
    recs = []
    for ex in configurations(tier):
        firsts = [l.split()[0] for l in ex["lines"]] or ["9050"]
        usable = [f for f in firsts if f != "0" and "[" not in f and f != "auto"]
        reqs = [None] + usable[:2] + ["9999", "unix:/tmp/new.sock", "127.0.0.1:9998"]
        for rq in reqs:
            recs.append(sp.choose(ex, rq, "tor"))
            if recs[-1]["obs"]["nset"] == 0 and not recs[-1]["obs"]["err"]:
                # a configured port serves this request: the same request made twice at the same time
                recs.append(sp.choose(ex, rq, "tor", overlap=True))
            if rq is None and ex["lines"]:
                recs.append(sp.choose(ex, rq, "tor_cfg"))
            if rq is not None and ex["lines"]:
                recs.append(sp.choose(ex, rq, "config"))
                recs.append(sp.choose(ex, rq, "config", twice=True))
                # the same with an unrelated, unsaved edit pending in the TorConfig
                recs.append(sp.choose(ex, rq, "config", pending=True))
        if ex["lines"] and firsts[0] in usable:
            # TorConfig.socks_endpoint (synchronous, configured ports only): the first port, or one named by its first word
            for rq in [None] + usable[:3]:
                recs.append(sp.choose(ex, rq, "cfgsync"))
        if ex["lines"]:
            # through TorConfig: a configured line requested in full (options included), a configured host:port listener on
            # the loopback address requested by its bare port, an absent port requested with option words (twice)
            full = [l for l in ex["lines"] if " " in l and l.split()[0] in usable]
            bare = [l.split(":")[1] for l in ex["lines"] if l.startswith("127.0.0.1:") and " " not in l]
            for rq in full[:2] + bare[:1] + ["9999 IsolateDestAddr", "unix:/tmp/new2.sock WorldWritable"]:
                recs.append(sp.choose(ex, rq, "config"))
                recs.append(sp.choose(ex, rq, "config", twice=True))
    for rq in (None, "9999", "9050"):
        recs.append(sp.choose(dict(lines=[], default="9050", lookupfails=True), rq, "tor"))
    # a request after a history on the same TorConfig (a port added, another refused, Tor's announcement in between)
    for ex in configurations(tier):
        if ex["lines"] and all(l.split()[0] not in ("9061", "9062", "0", "auto") and "[" not in l for l in ex["lines"]):
            recs.append(sp.chain(ex))
            if all(l.split()[0] not in ("9999", "8888") for l in ex["lines"]):
                # another controller added a listener while this TorConfig was bootstrapping (after it had read SocksPort)
                recs.append(sp.midboot(ex))
    kinds = ["ok", "connerr", "other", "socksfail", "hangup"]
    for outs in itertools.product(kinds, repeat=2):
        recs.append(sp.fallback(outs))
        # the same endpoint object is used again after an earlier connect() that met other conditions
        for prior in itertools.product(["ok", "connerr", "socksfail"], ["ok", "connerr"]):
            recs.append(sp.fallback(outs, prior))
    rep.cov["evaluations"] = len(recs)
    rep.cov["distinct_nontrivial"] = len(set(common.digest([r.get("existing"), r.get("requested"), r.get("path"), r.get("outcomes")]) for r in recs))
    rep.cov["rule"] = ("existing SOCKSPort configurations (default, 'SOCKSPort 0', ordered selections of 1-3 lines from 7 forms) x requested "
                       "{none, configured, unconfigured in 3 forms} x 2 API paths, plus all 25 outcome sequences of the well-known-port "
                       "fallback; distinct by input; each requires a decision (use / add)")
    traces = [dict(r, steps=[1]) for r in recs]
    res, runs = tlc.validate_parallel("SocksPortTrace", "SocksPortTrace.cfg", traces, nproc=8, chunk=600, timeout=1500)
    pipeline.selftest_from(rep, "SocksPortTrace", "SocksPortTrace.cfg", traces, res)
    for r in runs:
        rep.cov["states"] += r.distinct
        rep.cov["transitions"] += r.generated
    if len(res) != len(traces) or any(x["matched"] < 0 for x in res):
        rep.broken.append("vector validation produced no verdict:\n" + (runs[0].out[-1500:] if runs else ""))
    known = dict((f["id"], f) for f in common.open_findings(pid))
    ok = n = 0
    for rec, x in zip(recs, res):
        if x["matched"] == 1 and all(d in known for d in x["devs"]):
            for d in x["devs"]:
                rep.known_finding(d, known[d]["what"])
            ok += 1
        else:
            n += 1
            if n <= 5:
                rep.violation("SOCKS port choice not as required: %s" % json.dumps(rec)[:900], dict(property=pid, module="SocksPort", vector=rec))
    rep.cov["rejected_vectors"] = n
    rep.cov["traces_validated_against_impl"] = ok
    rep.cov["samples"] = [r for r in recs if r["part"] == "a" and r["obs"]["nset"] == 1][:1] + recs[-1:]
    return rep.finish()


def replay(pid, path):
    p = json.load(open(path))
    v = p["vector"]
    if v["part"] == "a":
        lines = [e["line"] for e in v["existing"]] if not v.get("implicit_default") else []
        if v.get("chain"):
            rec = sp.chain(dict(lines=v["base"]))
        elif v.get("midboot"):
            rec = sp.midboot(dict(lines=v["base"]))
        else:
            rec = sp.choose(dict(lines=lines, default="9050"), v["requested"] or None, v["path"], twice=v.get("twice", False), overlap=v.get("overlap", False), pending=v.get("pending", False))
    else:
        rec = sp.fallback(v["outcomes"], v.get("prior") or None)
    res, r = tlc.validate_traces("SocksPortTrace", "SocksPortTrace.cfg", [dict(rec, steps=[1])])
    known = set(f["id"] for f in common.open_findings(pid))
    if res[0]["matched"] != 1 or (set(res[0]["devs"]) - known):
        print("VIOLATION property=%s replay=%s" % (pid, path))
        print("  " + json.dumps(rec)[:600])
        return 1
    print("replay: accepted")
    return 0
