"""C04: replay Auth behaviours into a real TorControlProtocol: real cookie files, real HMACs over the client's
fresh nonce, scripted server behaviour at every step."""
import binascii
import hashlib
import hmac
import os
import shutil
import sys
import tempfile

REPO = os.environ.get("VERIF_REPO", "/repo")
sys.path.insert(0, REPO)

from twisted.internet import defer, error                  # noqa: E402
from twisted.python import failure, log                    # noqa: E402
from twisted.test import proto_helpers                     # noqa: E402

import txtorcon                                             # noqa: E402
from txtorcon import TorControlProtocol                     # noqa: E402

assert os.path.abspath(txtorcon.__file__).startswith(os.path.abspath(REPO)), txtorcon.__file__

PASSWORD = b"correct horse"
S2C = b"Tor safe cookie authentication server-to-controller hash"
C2S = b"Tor safe cookie authentication controller-to-server hash"


# one Tor (one cookie) for the whole process, and what an eavesdropper saw of the last honest SAFECOOKIE exchange with it
COOKIE = os.urandom(32)
LAST = {}


def _warm():
    """an honest SAFECOOKIE exchange on an earlier connection of this process, recorded for a later replay"""
    tmp = tempfile.mkdtemp(prefix="verif-auth-")
    path = os.path.join(tmp, "control_auth_cookie")
    with open(path, "wb") as f:
        f.write(COOKIE)
    proto = TorControlProtocol()
    tr = proto_helpers.StringTransport()
    proto.post_bootstrap.addErrback(lambda f: None)
    proto.makeConnection(tr)
    tr.clear()
    proto.dataReceived(('250-PROTOCOLINFO 1\r\n250-AUTH METHODS=SAFECOOKIE COOKIEFILE="%s"\r\n250-VERSION Tor="0.4.8.0"\r\n250 OK\r\n' % path).encode())
    line = tr.value().decode().strip().split()
    tr.clear()
    cnonce = binascii.unhexlify(line[2])
    snonce = os.urandom(32)
    LAST.update(hash=hmac.new(S2C, COOKIE + cnonce + snonce, hashlib.sha256).hexdigest().upper(),
                snonce=binascii.hexlify(snonce).decode().upper(), cnonce=cnonce)
    proto.dataReceived(("250 AUTHCHALLENGE SERVERHASH=%s SERVERNONCE=%s\r\n" % (LAST["hash"], LAST["snonce"])).encode())
    proto.connectionLost(failure.Failure(error.ConnectionDone("warm-up over")))
    shutil.rmtree(tmp, True)


class Run(object):
    def __init__(self, scen, order_seed=0):
        self.scen = scen
        self.tmp = tempfile.mkdtemp(prefix="verif-auth-")
        self.cookie = COOKIE
        # (cookies are random bytes: in two of three runs the last one is a line-feed or carriage-return byte)
        if order_seed % 3 == 1:
            self.cookie = COOKIE[:31] + b"\n"
        elif order_seed % 3 == 2:
            self.cookie = COOKIE[:31] + b"\r"
        self.cookiepath = None
        c = scen["cookie"]
        if c != "nofield":
            name = 'control auth "cookie" \\x' if c == "escaped" else "control_auth_cookie"
            self.cookiepath = os.path.join(self.tmp, name)
            if c == "unreadable":
                pass        # the file does not exist
            else:
                data = self.cookie if c in ("valid", "escaped") else (self.cookie[:31] if c == "short" else
                                                                       self.cookie + [b"x", b"\n", b"\r\n", b"\r"][order_seed % 4])
                with open(self.cookiepath, "wb") as f:
                    f.write(data)
        self.pwcalls = 0
        self.pwd = None
        pw = scen["pw"]
        run = self

        def provider():
            run.pwcalls += 1
            if pw == "value":
                return PASSWORD
            if pw == "empty":
                return b""
            if pw == "coro":
                async def coro():
                    return PASSWORD
                return coro()
            run.pwd = defer.Deferred()
            return run.pwd
        self.proto = TorControlProtocol(None if pw == "absent" else provider)
        self.tr = proto_helpers.StringTransport()
        self.ready = []
        self.proto.post_bootstrap.addBoth(self.ready.append)
        self.exc = False
        self.errors = []
        self.wire = []
        self.nonce = None
        methods = list(scen["methods"])
        k = order_seed % max(1, len(methods))
        self.methods = methods[k:] + methods[:k]        # advertised in some order

    def escaped_path(self):
        return self.cookiepath.replace("\\", "\\\\").replace('"', '\\"')

    def drain(self):
        data = self.tr.value()
        self.tr.clear()
        for line in data.split(b"\r\n"):
            if not line:
                continue
            parts = line.decode("latin-1").split(" ", 1)
            cmd, arg = parts[0], (parts[1] if len(parts) > 1 else "")
            cls = arg
            if cmd == "PROTOCOLINFO":
                cls = ""
            elif cmd == "AUTHCHALLENGE":
                a = arg.split()
                ok = len(a) == 2 and a[0] == "SAFECOOKIE" and len(a[1]) == 64
                if ok:
                    self.nonce = binascii.unhexlify(a[1])
                cls = "nonce" if ok else "bad"
            elif cmd == "AUTHENTICATE":
                want_proof = None
                if self.nonce is not None and getattr(self, "snonce", None) is not None:
                    want_proof = hmac.new(C2S, self.cookie + self.nonce + self.snonce, hashlib.sha256).hexdigest().upper()
                if arg == "":
                    cls = "none"
                elif arg.upper() == binascii.hexlify(self.cookie).decode().upper():
                    cls = "cookie"
                elif want_proof is not None and arg.upper() == want_proof:
                    cls = "proof"
                elif arg.upper() == binascii.hexlify(PASSWORD).decode().upper():
                    cls = "password"
                else:
                    cls = "other"
            elif cmd == "USEFEATURE":
                cls = ""
            self.wire.append([cmd, cls])

    def feed(self, text):
        self.proto.dataReceived(text.encode("latin-1"))

    def step(self, e):
        a = e["a"]
        try:
            if a == "Start":
                self.proto.makeConnection(self.tr)
            elif a == "ReplyPI":
                if e["k"] == "err":
                    self.feed("510 Unrecognized command\r\n")
                elif e["k"] == "noauth":
                    self.feed('250-PROTOCOLINFO 1\r\n250-VERSION Tor="0.4.8.0"\r\n250 OK\r\n')
                else:
                    auth = "250-AUTH METHODS=%s" % ",".join(self.methods)
                    if self.cookiepath is not None:
                        auth += ' COOKIEFILE="%s"' % self.escaped_path()
                    self.feed('250-PROTOCOLINFO 1\r\n%s\r\n250-VERSION Tor="0.4.8.0"\r\n250 OK\r\n' % auth)
            elif a == "PwResolve":
                d, self.pwd = self.pwd, None
                if e["ok"]:
                    d.callback(PASSWORD)
                else:
                    d.errback(RuntimeError("no password available"))
            elif a == "ReplyChallenge":
                k = e["k"]
                self.snonce = os.urandom(32)
                good = hmac.new(S2C, self.cookie + self.nonce + self.snonce, hashlib.sha256).hexdigest().upper()
                sn = binascii.hexlify(self.snonce).decode().upper()
                if k == "ok":
                    LAST.update(hash=good, snonce=sn, cnonce=self.nonce)
                    self.feed("250 AUTHCHALLENGE SERVERHASH=%s SERVERNONCE=%s\r\n" % (good, sn))
                elif k == "replay":
                    # a server that does not know the cookie answers with what it overheard on an earlier connection
                    if not LAST:
                        _warm()
                    self.snonce = binascii.unhexlify(LAST["snonce"])
                    self.feed("250 AUTHCHALLENGE SERVERHASH=%s SERVERNONCE=%s\r\n" % (LAST["hash"], LAST["snonce"]))
                elif k == "wronghash":
                    bad = hmac.new(S2C, os.urandom(32) + self.nonce + self.snonce, hashlib.sha256).hexdigest().upper()
                    self.feed("250 AUTHCHALLENGE SERVERHASH=%s SERVERNONCE=%s\r\n" % (bad, sn))
                elif k == "shorthash":
                    self.feed("250 AUTHCHALLENGE SERVERHASH=%s SERVERNONCE=%s\r\n" % (good[:8 if len(self.wire) % 2 else 2], sn))
                elif k == "emptyhash":
                    self.feed("250 AUTHCHALLENGE SERVERHASH= SERVERNONCE=%s\r\n" % sn)
                elif k == "longhash":
                    self.feed("250 AUTHCHALLENGE SERVERHASH=%sAB SERVERNONCE=%s\r\n" % (good, sn))
                elif k == "malformed":
                    self.feed("250 AUTHCHALLENGE SERVERNONCE=%s\r\n" % (sn if len(self.wire) % 2 else sn[:-1]))
                else:
                    self.feed("512 Bad arguments to AUTHCHALLENGE\r\n")
            elif a == "ReplyAuth":
                self.feed("250 OK\r\n" if e["ok"] else "515 Authentication failed: Wrong length on authentication cookie.\r\n")
            elif a == "ReplyQuery":
                last = self.wire[-1]
                if not e["ok"]:
                    self.feed("552 Unrecognized key\r\n")
                elif last[0] == "USEFEATURE":
                    self.feed("250 OK\r\n")
                else:
                    key = last[1]
                    val = {"signal/names": "RELOAD HUP NEWNYM", "version": "0.4.8.0", "events/names": "CIRC STREAM"}.get(key, "x")
                    self.feed("250-%s=%s\r\n250 OK\r\n" % (key, val))
            elif a == "Disconnect":
                reason = error.ConnectionDone("injected") if e.get("clean") else error.ConnectionLost("injected")
                self.proto.connectionLost(failure.Failure(reason))
            else:
                raise ValueError(a)
        except Exception:
            self.exc = True
            self.errors.append(failure.Failure().getTraceback())
        self.drain()
        ready = "p"
        if self.ready:
            ready = "err" if isinstance(self.ready[0], failure.Failure) else "ok"
        return dict(wire=[list(w) for w in self.wire], pwCalls=self.pwcalls, ready=ready, nready=len(self.ready), exc=self.exc)

    def close(self):
        shutil.rmtree(self.tmp, True)


def replay(scen, script, order_seed=0):
    run = Run(scen, order_seed)
    steps = []
    for e in script:
        s = dict(e)
        s["obs"] = run.step(e)
        steps.append(s)
        if run.exc:
            break
    run.close()
    return dict(steps=steps, scen=dict(methods=sorted(scen["methods"]), cookie=scen["cookie"], pw=scen["pw"]),
                order=order_seed, errors=run.errors[:2])


class _Sink(object):
    def __call__(self, ev):
        pass


log.startLoggingWithObserver(_Sink(), setStdout=False)
