"""C19: launch fires at most once; success only after full bootstrap; tempdir removed (spec/Launch*.tla)."""
import json
import random

import common
import pipeline
import tlc
import la

ASSUME = [
    "virtual time: a second passes before every step, the launch timeout is 60 s and the Timeout step moves the clock to exactly 60 s "
    "after the launch",
    "Shutdown: the fake reactor's recorded 'before shutdown' triggers are run by the harness; nothing is observed after it",
    "launch() runs on a fake reactor (spawnProcess returns a process transport that records signals; callLater is a Clock) with a "
    "scripted connection_creator; the control connection is a real TorControlProtocol served by SimTor, which withholds the replies "
    "to SETEVENTS STATUS_CLIENT / TAKEOWNERSHIP / RESETCONF until the script's CtlReply steps",
    "bootstrap progress events are only sent once Tor has processed the SETEVENTS (as Tor does); after the process has exited it "
    "prints nothing more and reports no progress",
    "the 'Opening Control listener' line arrives within one stdout chunk (a line split across chunks never triggers a connection "
    "attempt - noted in DESIGN.md as an observation outside the statement)",
    "data directories are real temporary directories; the launch result is the Deferred returned by launch()",
]


def rand_script(rng):
    """biased towards getting far: marker, connect, replies, progress, with timeout / exit / rejections interleaved"""
    s = []
    attempted = False
    pending = False
    stage = "none"
    subscribed = False
    exited = False
    tmo = "armed"
    for _ in range(rng.randint(4, 22)):
        r = rng.random()
        if r < 0.06 and tmo == "armed":
            s.append(dict(a="Timeout"))
            tmo = "fired"
        elif r < 0.12 and not exited:
            s.append(dict(a="Exit"))
            exited = True
        elif pending and r < 0.6:
            how = rng.choice(["ok", "ok", "ok", "authfail", "refused"])
            s.append(dict(a="Connect", how=how))
            pending = False
            if how == "ok":
                stage = "se"
            else:
                attempted = False
        elif stage in ("se", "to", "rc") and r < 0.75:
            ok = rng.random() < 0.85
            s.append(dict(a="CtlReply", ok=ok))
            if not ok:
                stage = "broken"
                attempted = False
            else:
                if stage == "se":
                    subscribed = True
                stage = {"se": "to", "to": "rc", "rc": "done"}[stage]
        elif subscribed and not exited and r < 0.9:
            p = rng.choice([10, 50, 100, 100])
            s.append(dict(a="Progress", p=p))
            if p == 100 and tmo != "fired":
                tmo = "cancelled"
        elif not exited and rng.random() < 0.15:
            s.append(dict(a="Stderr"))
        elif not exited:
            m = rng.random() < 0.7
            s.append(dict(a="Stdout", marker=m))
            if m and not attempted:
                attempted = True
                pending = True
    if rng.random() < 0.3:
        s.append(dict(a="Shutdown"))       # the application ends (possibly with Tor still running)
    return s


def run(pid, tier, seed):
    rep = common.Report(pid, tier, seed)
    rep.assumptions = list(ASSUME)
    pipeline.design_check(rep, "Launch", ["Launch_MC"] if tier == "quick" else ["Launch_MC", "Launch_MC_thorough"], timeout=600)
    rng = random.Random(seed)
    sims = pipeline.generate(rep, "Launch_Gen", "Launch_Gen.cfg", 300 if tier == "quick" else 3000, 18, seed, allvars=True)
    jobs = [(st["hist"], st["dirKind"]) for st in sims]
    jobs += [(rand_script(rng), rng.choice(["temp", "user", "cfg", "usernew"])) for _ in range(400 if tier == "quick" else 5000)]
    traces, seen = [], set()
    for s, dk in jobs:
        traces.append(la.replay(s, dk))
        acts = [e["a"] for e in s]
        if "Connect" in acts and ("Timeout" in acts or "Exit" in acts or any(e["a"] == "Progress" and e["p"] == 100 for e in s)):
            seen.add(common.digest([s, dk]))
    rep.cov["evaluations"] = len(traces)
    rep.cov["distinct_nontrivial"] = len(seen)
    rep.cov["rule"] = ("orderings of stdout chunks (with / without the control-listener line), connection outcome (ok / auth failure / "
                       "refused), ownership replies (acknowledged / rejected), progress 10/50/100, timeout, process exit (error code, signal or clean status 0), "
                       "with a temporary data directory, a caller-supplied one (keyword) or one named by the configuration object handed in: TLC -simulate behaviours of Launch_Gen plus seeded random "
                       "orderings biased to reach the ownership dialogue; distinct by hash; non-trivial = a connection attempt plus a "
                       "timeout, an exit or a 100% report")
    ok = pipeline.validate(rep, pid, "Launch", "LaunchTrace", "LaunchTrace.cfg", traces, chunk=200,
                           payload=lambda t: dict(script=pipeline.strip_obs(t), dirkind=t["dirkind"]))
    rep.cov["samples"] = [dict(dirkind=t["dirkind"], steps=t["steps"][:10]) for t in ok[:1]]
    return rep.finish()


def replay(pid, path):
    p = json.load(open(path))
    t = la.replay(p["script"], p["dirkind"])
    res, r = tlc.validate_traces("LaunchTrace", "LaunchTrace.cfg", [t])
    x = res[0]
    print("replay: matched %d of %d steps" % (x["matched"], x["wanted"]))
    if x["matched"] != x["wanted"]:
        print("VIOLATION property=%s replay=%s" % (pid, path))
        return 1
    return 0
