"""C07 / C08: replay TorStateM behaviours into a real TorState on a real
TorControlProtocol served by SimTor; record the projection TorStateMTrace.tla
compares with the model."""
import os
import sys

REPO = os.environ.get("VERIF_REPO", "/repo")
sys.path.insert(0, REPO)

from twisted.internet import defer                                   # noqa: E402
from twisted.python import failure, log                              # noqa: E402
from twisted.test import proto_helpers                               # noqa: E402
from zope.interface import implementer                               # noqa: E402

import txtorcon                                                       # noqa: E402
from txtorcon import TorControlProtocol, TorState                     # noqa: E402
from txtorcon.interface import ICircuitListener, IStreamListener      # noqa: E402

import simtor                                                         # noqa: E402

assert os.path.abspath(txtorcon.__file__).startswith(os.path.abspath(REPO)), txtorcon.__file__

RELAYS = {"r1": 1, "r2": 2, "rX": 9}       # rX is not in the consensus
NICK = {"r1": "relayone", "r2": "relaytwo", "rX": "ghost"}
BF = {1: "NEED_CAPACITY", 2: "IS_INTERNAL,NEED_UPTIME"}
HEX2NAME = dict((simtor.relay_hex(n), k) for k, n in RELAYS.items())


def path_text(path, style=0):
    out = []
    for i, r in enumerate(path):
        h = simtor.relay_hex(RELAYS[r])
        form = (i + style) % 3
        out.append("$%s~%s" % (h, NICK[r]) if form == 0 else "$%s=%s" % (h, NICK[r]) if form == 1 else "$" + h)
    return ",".join(out)


def circ_line(ev, snapshot=False):
    parts = [str(ev["id"]), ev["st"]]
    if ev["path"]:
        parts.append(path_text(ev["path"], ev["id"]))
    parts.append("BUILD_FLAGS=%s" % BF[ev["bf"]])
    parts.append("PURPOSE=%s" % ev["pur"])
    parts.append("TIME_CREATED=2030-01-01T12:00:0%d.000000" % (ev["id"] % 10))
    if ev["pur"] == "HS_CLIENT_REND" and ev["st"] in ("LAUNCHED", "EXTENDED"):
        # keywords come and go with the circuit's progress: the view holds those of the latest line only
        parts.append("HS_STATE=HSCR_CONNECTING")
        parts.append("REND_QUERY=abcdefghijklmnop")
    if ev["st"] in ("CLOSED", "FAILED"):
        parts.append("REASON=FINISHED" if ev["st"] == "CLOSED" else "REASON=TIMEOUT")
    return " ".join(parts)


def stream_line(ev, snapshot=False):
    tgt = ev["tgt"]
    if ev["st"] == "REMAP":
        tgt = tgt + ":80"
    parts = [str(ev["id"]), ev["st"], str(ev["circ"]), tgt]
    if ev["st"] in ("CLOSED", "FAILED", "DETACHED"):
        parts.append("REASON=DONE" if ev["st"] == "CLOSED" else "REASON=END")
    if ev.get("src"):
        parts.append("SOURCE_ADDR=%s" % ev["src"])
        parts.append("PURPOSE=USER")
    return " ".join(parts)


class ListenerBug(Exception):
    pass


@implementer(ICircuitListener, IStreamListener)
class RecListener(object):
    def __init__(self, name, run):
        self.name, self.run = name, run

    def _n(self, kind, oid, extra=""):
        self.run.notes.append([self.name, kind, oid, extra])
        if kind.startswith("s") and self.name == self.run.raiser:
            # a faulty application listener: it fails in every stream notification (which the stream guards each
            # listener's call against); everybody else is notified all the same
            raise ListenerBug("listener %s fails in %s" % (self.name, kind))

    @staticmethod
    def _flags(kw):
        ups = [k for k in kw if k.isupper()]
        return "flags" if ups and all(k.lower() in kw and kw[k.lower()] == kw[k] for k in ups) else "noflags"

    def circuit_new(self, c): self._n("new", c.id)
    def circuit_launched(self, c): self._n("launched", c.id)
    def circuit_extend(self, c, router): self._n("extend", c.id, HEX2NAME.get(router.id_hex[1:], "?"))
    def circuit_built(self, c): self._n("built", c.id)
    def _done_with(self, c):
        """a listener that is done with a circuit once it is gone lets go of it from inside the notification -
        only when no other application listener comes after it in the circuit's list (removing oneself while the
        circuit iterates its listeners makes it skip the next one; that is not what is being examined here)"""
        ls = list(c.listeners)
        if self in ls and not any(isinstance(x, RecListener) for x in ls[ls.index(self) + 1:]):
            c.unlisten(self)

    def circuit_closed(self, c, **kw):
        self._n("closed", c.id, self._flags(kw))
        self._done_with(c)

    def circuit_failed(self, c, **kw):
        self._n("failed", c.id, self._flags(kw))
        self._done_with(c)
    def stream_new(self, s): self._n("snew", s.id)
    def stream_succeeded(self, s): self._n("ssucceeded", s.id)
    def stream_attach(self, s, circuit): self._n("sattach", s.id)
    def stream_detach(self, s, **kw): self._n("sdetach", s.id, self._flags(kw))
    def stream_closed(self, s, **kw): self._n("sclosed", s.id, self._flags(kw))
    def stream_failed(self, s, **kw): self._n("sfailed", s.id, self._flags(kw))


class Run(object):
    def __init__(self, circ_ids, stream_ids, waits, raiser=None):
        self.circ_ids, self.stream_ids, self.wait_ids = circ_ids, stream_ids, waits
        self.raiser = raiser
        self.proto = TorControlProtocol()
        self.tr = proto_helpers.StringTransport()
        self.sim = simtor.SimTor(self.proto, self.tr)
        self.sim.hold = lambda line: line.split(" ")[0] in ("CLOSECIRCUIT", "CLOSESTREAM", "EXTENDCIRCUIT")
        self.tc = dict((c, None) for c in circ_ids)      # Tor's truth, for the snapshot
        self.ts = dict((s, None) for s in stream_ids)
        self.state = None
        self.notes = []
        self.exc = False
        self.errors = []
        self.listeners = {}
        self.waits = dict((w, dict(k="none", out="p", n=0, id=0)) for w in waits)
        self.cobj = {}
        self.sobj = {}
        self.lastline = {}
        self.nlog = 0
        ns = []
        for k in ("r1", "r2"):
            n = RELAYS[k]
            ns += ["r %s %s %s 2030-01-01 00:00:00 10.0.0.%d 9001 0" % (NICK[k], simtor.relay_b64(n), simtor.relay_b64(n + 100), n),
                   "s Fast Running Stable Valid", "w Bandwidth=100"]
        self.sim.info["ns/all"] = ns
        self.sim.info["address-mappings/all"] = ""
        self.sim.info["entry-guards"] = ""
        self.sim.info["process/pid"] = "4242"
        self.proto.makeConnection(self.tr)
        self.sim.pump()
        assert self.proto.post_bootstrap.called

    # ---- stimulus ----
    def truth(self, e):
        a = e["a"]
        if a in ("Launch", "Extend", "Built", "CircGone"):
            ev = e["ev"]
            self.tc[ev["id"]] = None if a == "CircGone" else ev
        else:
            ev = e["ev"]
            if a in ("StreamGone", "LateClosed"):
                self.ts[ev["id"]] = None
            else:
                old = self.ts[ev["id"]] or {}
                cur = dict(ev)
                cur["tgt"] = old.get("tgt", ev["tgt"]) if a != "StreamNew" else ev["tgt"]
                cur["taddr"] = ev["tgt"] if a == "Remap" else old.get("taddr", "")
                if a == "Detached":
                    cur["circ"] = 0
                self.ts[ev["id"]] = cur

    def snapshot(self):
        circs = [circ_line(ev, True) for c, ev in sorted(self.tc.items()) if ev]
        streams = [stream_line(dict(ev, src="", tgt=ev["taddr"] if ev["st"] == "REMAP" else ev["tgt"]))
                   for s, ev in sorted(self.ts.items()) if ev]
        self.sim.info["circuit-status"] = circs[0] if len(circs) == 1 else (circs if circs else "")
        self.sim.info["stream-status"] = streams[0] if len(streams) == 1 else (streams if streams else "")
        self.state = TorState(self.proto)
        self.sim.pump()
        if not self.state.post_bootstrap.called:
            self.exc = True
            self.errors.append("TorState did not finish bootstrapping")
        elif isinstance(self.state.post_bootstrap.result, failure.Failure):
            self.exc = True
            self.errors.append(self.state.post_bootstrap.result.getTraceback())
            self.state.post_bootstrap.addErrback(lambda f: None)

    def step(self, e):
        self.notes = []
        a = e["a"]
        try:
            if a in ("Launch", "Extend", "Built", "CircGone", "StreamNew", "SentConnect", "Remap", "Succeeded",
                     "Detached", "StreamGone", "LateClosed"):
                self.truth(e)
                if self.state is not None:
                    ev = e["ev"]
                    if a in ("Launch", "Extend", "Built", "CircGone"):
                        line = circ_line(ev)
                        self.lastline[("c", ev["id"])] = line
                        self.sim.event("650 CIRC %s\r\n" % line)
                    else:
                        self.sim.event("650 STREAM %s\r\n" % stream_line(ev))
            elif a == "Snapshot":
                self.snapshot()
            elif a == "AddListener":
                l = self.listeners.setdefault(e["l"], RecListener(e["l"], self))
                self.state.add_circuit_listener(l)
                self.state.add_stream_listener(l)
            elif a == "UnlistenC":
                self.cobj[e["id"]].unlisten(self.listeners[e["l"]])
            elif a == "UnlistenS":
                self.sobj[e["id"]].unlisten(self.listeners[e["l"]])
            elif a in ("WaitBuilt", "WaitClosed", "CloseC", "CloseS"):
                x = e["x"]
                kind = {"WaitBuilt": "built", "WaitClosed": "closed", "CloseC": "closec", "CloseS": "closes"}[a]
                self.waits[x] = dict(k=kind, out="p", n=0, id=e["id"])
                if a == "WaitBuilt":
                    d = self.cobj[e["id"]].when_built()
                elif a == "WaitClosed":
                    d = self.cobj[e["id"]].when_closed()
                elif a == "CloseC":
                    d = self.cobj[e["id"]].close()
                else:
                    d = self.sobj[e["id"]].close()
                d.addCallbacks(self._wok, self._werr, callbackArgs=(x,), errbackArgs=(x,))
                self.sim.pump()
            elif a == "Build":
                x = e["x"]
                self.waits[x] = dict(k="build", out="p", n=0, id=e["id"])

                def answer(line, cid=e["id"]):
                    self.lastline.pop(("c", cid), None)        # the reply resets the object's flags: nothing to compare
                    return ("250 EXTENDED %d\r\n" % cid).encode()
                self.sim.handlers["EXTENDCIRCUIT"] = answer
                d = self.state.build_circuit()
                d.addCallbacks(self._wok, self._werr, callbackArgs=(x,), errbackArgs=(x,))
                self.sim.pump()
            elif a == "TimedBuild":
                x = e["x"]
                self.waits[x] = dict(k="tbuild", out="p", n=0, id=e["id"])

                def answer(line, cid=e["id"]):
                    self.lastline.pop(("c", cid), None)
                    return ("250 EXTENDED %d\r\n" % cid).encode()
                self.sim.handlers["EXTENDCIRCUIT"] = answer
                from twisted.internet import task
                from txtorcon.circuit import build_timeout_circuit
                clock = task.Clock()
                self.tclocks = getattr(self, "tclocks", {})
                self.tclocks[x] = clock
                d = build_timeout_circuit(self.state, clock, None, 30)
                d.addCallbacks(self._wok, self._werr, callbackArgs=(x,), errbackArgs=(x,))
                self.sim.pump()
            elif a == "BuildTimeout":
                self.tclocks[e["x"]].advance(31)
                self.sim.pump()
            elif a == "Ack":
                self.sim.release()
            elif a == "Nack":
                self.sim.release(b"552 Unrecognized reason or unknown id\r\n")
            else:
                raise ValueError(a)
        except Exception:
            self.exc = True
            self.errors.append(failure.Failure().getTraceback())
        return self.obs()

    def _wok(self, v, x):
        w = self.waits[x]
        w["n"] += 1
        if w["out"] == "p":
            w["out"] = "ok"

    def _werr(self, f, x):
        w = self.waits[x]
        w["n"] += 1
        if w["out"] == "p":
            w["out"] = "err"

    # ---- projection ----
    def obs(self):
        st = self.state
        circ, strm = [], []
        if st is not None:
            for c in self.circ_ids:
                if c in st.circuits:
                    self.cobj[c] = st.circuits[c]
            for s in self.stream_ids:
                if s in st.streams:
                    self.sobj[s] = st.streams[s]
        for c in self.circ_ids:
            o = st.circuits.get(c) if st is not None else None
            if o is None:
                circ.append(dict(live=False, st="none", path=[], pur="", bf=0, streams=[]))
            else:
                bfs = ",".join(o.build_flags)
                bf = [k for k, v in BF.items() if v == bfs] or ([0] if bfs == "" else [])
                circ.append(dict(live=True, st=o.state, path=[HEX2NAME.get(r.id_hex[1:], "?") for r in o.path],
                                 pur=o.purpose or "", bf=bf[0] if bf else -1, streams=[x.id for x in o.streams]))
                line = self.lastline.get(("c", c))
                if line is not None:
                    want = dict(a.split("=", 1) for a in line.split() if "=" in a and not a.startswith("$"))
                    if o.flags != want:
                        circ[-1]["bf"] = -2
        for s in self.stream_ids:
            o = st.streams.get(s) if st is not None else None
            if o is None:
                strm.append(dict(live=False, st="none", circ=0, listed=0, tgt="", taddr="", src=""))
            else:
                tgt = "" if o.target_host is None else "%s:%s" % (o.target_host, o.target_port)
                src = "" if o.source_addr is None else "%s:%s" % (o.source_addr, o.source_port)
                strm.append(dict(live=True, st=o.state, circ=o.circuit.id if o.circuit is not None else 0,
                                 listed=sum(1 for x in o.circuit.streams if x is o) if o.circuit is not None else 0,
                                 tgt=tgt, taddr="" if o.target_addr is None else str(o.target_addr), src=src))
        wrote = []
        for line in self.sim.log[self.nlog:]:
            w = line.split()
            if w[0] in ("CLOSECIRCUIT", "CLOSESTREAM", "EXTENDCIRCUIT"):
                wrote.append([w[0], int(w[1])])
        self.nlog = len(self.sim.log)
        return dict(circ=circ, strm=strm, notes=self.notes, waits=[dict(self.waits[w]) for w in self.wait_ids],
                    wrote=wrote, exc=self.exc)


def replay(script, circ_ids=(1, 2), stream_ids=(1, 2), waits=("w1", "w2", "w3"), raiser=None):
    run = Run(list(circ_ids), list(stream_ids), list(waits), raiser)
    steps = []
    for e in script:
        s = dict(e)
        s["obs"] = run.step(e)
        steps.append(s)
        if run.exc:
            break
    return dict(steps=steps, raiser=raiser or "", errors=run.errors[:2])


class _Sink(object):
    def __call__(self, ev):
        pass


log.startLoggingWithObserver(_Sink(), setStdout=False)
