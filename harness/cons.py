"""C16: feed network-status documents to a real TorState (GETINFO ns/all at bootstrap, NEWCONSENSUS events
afterwards) and record the relay view."""
import base64
import binascii
import os
import random
import sys

REPO = os.environ.get("VERIF_REPO", "/repo")
sys.path.insert(0, REPO)

from twisted.python import failure, log                  # noqa: E402
from twisted.test import proto_helpers                   # noqa: E402

import txtorcon                                           # noqa: E402
from txtorcon import TorControlProtocol, TorState         # noqa: E402
from txtorcon.router import hexIdFromHash, hashFromHexId  # noqa: E402

import simtor                                             # noqa: E402

assert os.path.abspath(txtorcon.__file__).startswith(os.path.abspath(REPO)), txtorcon.__file__

RELAYS = ["ra", "rb", "rc", "rd"]
NICKS = {"n1": "alpha", "n2": "Unnamed", "n3": "gamma"}
IPS = {1: "10.1.1.%d", 2: "192.168.2.%d"}
V6 = ["[2001:db8::%d]:9001", "[fe80::%d]:443"]
BW = {1: 100, 2: 2500, 3: 7}


def digest_for(r, salt):
    rng = random.Random("%s-%s" % (r, salt))
    choice = rng.randrange(4)
    if choice == 0:
        return bytes([RELAYS.index(r) + 1]) * 20
    if choice == 1:
        return bytes([0xff] * 19 + [RELAYS.index(r)])
    if choice == 2:
        return bytes([0] * 19 + [RELAYS.index(r) + 1])
    return bytes(rng.getrandbits(8) for _ in range(19)) + bytes([RELAYS.index(r)])


def b64(d):
    return base64.b64encode(d).decode().rstrip("=")


def hexid(d):
    return "$" + binascii.hexlify(d).decode().upper()


def render(doc, digests, order):
    lines = []
    for r in order:
        e = doc[r]
        if not e["here"]:
            continue
        i = RELAYS.index(r) + 1
        lines.append("r %s %s %s 2030-01-01 00:00:00 %s %d %d" % (NICKS[e["nick"]], b64(digests[r]), b64(bytes([i + 50]) * 20),
                                                                  IPS[e["ip"]] % i, 9000 + i, 9100 + i if i % 2 else 0))
        for k in range(e["v6"]):
            lines.append("a " + V6[k] % i)
        flags = ["Fast"] + (["Guard"] if "guard" in e["flags"] else []) + ["Running"] + (["Authority"] if "authority" in e["flags"] else []) + ["Valid"]
        lines.append("s " + " ".join(sorted(flags)))
        if e["bw"]:
            lines.append("w Bandwidth=%d" % BW[e["bw"]])
        if e["p"]:
            lines.append("p accept 80,443" if i % 2 else "p reject 1-65535")
    return lines


class Run(object):
    eg = False          # (set by replay) Tor names entry guards at the bootstrap
    early = None        # (set by replay) the document that arrives as NEWCONSENSUS while the bootstrap is still running

    def __init__(self, salt):
        self.digests = dict((r, digest_for(r, salt)) for r in RELAYS)
        self.proto = TorControlProtocol()
        self.tr = proto_helpers.StringTransport()
        self.sim = simtor.SimTor(self.proto, self.tr)
        self.sim.info.update({"circuit-status": "", "stream-status": "", "address-mappings/all": "", "entry-guards": "", "process/pid": "1"})
        self.proto.makeConnection(self.tr)
        self.sim.pump()
        self.state = None
        self.serials = {}
        self.exc = False
        self.errors = []

    def lookup(self, e):
        """relays are named to TorState in the forms Tor uses: a direct identity lookup, or a circuit's path"""
        st, doc = self.state, e["d"]

        def longname(r, sep):
            nick = NICKS[doc[r]["nick"]] if doc[r]["here"] else "gone"
            h = hexid(self.digests[r])
            return h if sep == "" else "%s%s%s" % (h, sep, nick)
        if e["form"] == "circ":
            path = ",".join(longname(r, "=" if i % 2 == 0 else "~") for i, r in enumerate(e["rs"]))
            self.sim.event("650 CIRC 99 EXTENDED %s BUILD_FLAGS=NEED_CAPACITY PURPOSE=GENERAL\r\n" % path)
            self.sim.event("650 CIRC 99 CLOSED %s PURPOSE=GENERAL REASON=FINISHED\r\n" % path)
        else:
            sep = {"hex": "", "tilde": "~", "eq": "="}[e["form"]]
            for r in e["rs"]:
                got = st.router_from_id(longname(r, sep))
                if doc[r]["here"] and got not in list(st.all_routers):
                    self.errors.append("lookup of %s as %r did not return the relay's object" % (r, longname(r, sep)))
                    self.exc = True

    def step(self, e):
        if e["a"] == "Lookup":
            try:
                self.lookup(e)
            except Exception:
                self.exc = True
                self.errors.append(failure.Failure().getTraceback())
            return self.obs(e["d"])
        lines = render(e["d"], self.digests, RELAYS)
        try:
            if self.state is not None and self.early is not None and e["d"] is self.early:
                self.early = None
                return self.obs(e["d"])         # it was delivered during the bootstrap already
            if self.state is None:
                self.sim.info["ns/all"] = lines
                if self.eg:
                    # Tor's entry guards, as the bootstrap asks for them: relays of the first document
                    present = [r for r in RELAYS if e["d"][r]["here"]][:2]
                    self.sim.info["entry-guards"] = ["%s~%s up" % (hexid(self.digests[r]), NICKS[e["d"][r]["nick"]]) for r in present]
                stash = []
                if self.early is not None:
                    # Tor publishes a new consensus right after acknowledging the NEWCONSENSUS subscription, while the
                    # bootstrap still has requests outstanding; the view is observed at that very moment for this step
                    nxt = render(self.early, self.digests, RELAYS)
                    text = "650+NEWCONSENSUS\r\n" + "".join(l + "\r\n" for l in nxt) + ".\r\n650 OK\r\n"

                    def setevents(line):
                        if "NEWCONSENSUS" in line and not stash:
                            stash.append(self.obs(e["d"]))
                            return b"250 OK\r\n" + text.encode("latin-1")
                        return None
                    self.sim.handlers["SETEVENTS"] = setevents
                self.state = TorState(self.proto)
                self.sim.pump()
                self.sim.handlers.pop("SETEVENTS", None)
                if not self.state.post_bootstrap.called or isinstance(self.state.post_bootstrap.result, failure.Failure):
                    self.exc = True
                    self.errors.append("bootstrap: %r" % (getattr(self.state.post_bootstrap, "result", None),))
                    self.state.post_bootstrap.addErrback(lambda f: None)
                if stash:
                    return stash[0]
                if self.early is not None:
                    self.early = None       # (the subscription was never seen: deliver it as an ordinary event later)
            else:
                text = "650+NEWCONSENSUS\r\n" + "".join(l + "\r\n" for l in lines) + ".\r\n650 OK\r\n"
                self.sim.event(text)
        except Exception:
            self.exc = True
            self.errors.append(failure.Failure().getTraceback())
        return self.obs(e["d"])

    def obs(self, doc):
        st = self.state
        relays = {}
        inv_nick = dict((v, k) for k, v in NICKS.items())
        allr = list(st.all_routers) if st is not None else []
        for r in RELAYS:
            h = hexid(self.digests[r])
            # identity codec: both directions against the harness's own base64/hex arithmetic
            codec = hexIdFromHash(b64(self.digests[r])) == h and hashFromHexId(h) == b64(self.digests[r]) \
                and hashFromHexId(h[1:]) == b64(self.digests[r])
            objs = [x for x in allr if x.id_hex == h]
            if st is None or not objs:
                # (a stand-in made up for a relay the document does not list - after a lookup - never claims to be from it)
                standin = st.routers.get(h) if st is not None else None
                relays[r] = dict(known=False, nick="", ip=0, flags=[], v6=0, bw=0, serial=0, ports=True, byid=True, codec=codec,
                                 cons=bool(standin is not None and standin.from_consensus))
                continue
            o = objs[0]
            if id(o) not in self.serials:
                self.serials[id(o)] = (len(self.serials) + 1, o)      # keep the object alive so ids stay unique
            i = RELAYS.index(r) + 1
            e = doc[r]
            ip = [k for k, v in IPS.items() if v % i == str(o.ip)]
            want_v6 = [V6[k] % i for k in range(e["v6"])] if e["here"] else None
            v6 = len(o.ip_v6) if want_v6 is None or list(o.ip_v6) == want_v6 else -1
            bw = [k for k, v in BW.items() if v == o.bandwidth]
            byid = len(objs) == 1 and st.routers.get(h) is o and st.routers_by_hash.get(h) is o
            try:
                byid = byid and st.router_from_id(h) is o
            except KeyError:
                byid = False
            relays[r] = dict(known=True, nick=inv_nick.get(o.name, "?"), ip=ip[0] if ip else -1,
                             flags=sorted(f for f in o.flags if f in ("guard", "authority")), v6=v6,
                             bw=(bw[0] if bw else (0 if o.bandwidth == 0 else -1)), serial=self.serials[id(o)][0],
                             ports=(int(o.or_port) == 9000 + i and int(o.dir_port) == (9100 + i if i % 2 else 0)) if hasattr(o, "or_port") else False,
                             byid=bool(byid), codec=codec, cons=bool(o.from_consensus))
        byname = {}
        for k, name in NICKS.items():
            got = None
            if st is not None:
                try:
                    got = st.routers[name]
                except KeyError:
                    got = None
            who = "none"
            if got is not None:
                who = "?"
                for r in RELAYS:
                    if got.id_hex == hexid(self.digests[r]):
                        who = r
            byname[k] = who
        rev = dict((hexid(d), r) for r, d in self.digests.items())
        guards = sorted(rev.get(k, "?" + k) for k in (st.guards.keys() if st is not None else []))
        auths = sorted(rev.get(v.id_hex, "?") for v in (st.authorities.values() if st is not None else []))
        return dict(relays=relays, byname=byname, guards=guards, auths=auths, nrelays=len(allr), exc=self.exc)


def replay(script, salt, early=False, eg=False):
    run = Run(salt)
    run.eg = bool(eg)
    docs = [e for e in script if e["a"] != "Lookup"]
    if early and len(docs) >= 2 and script[0]["a"] != "Lookup" and script[1]["a"] != "Lookup":
        run.early = script[1]["d"]
    steps = []
    for e in script:
        s = dict(e)
        s["obs"] = run.step(e)
        steps.append(s)
        if run.exc:
            break
    return dict(steps=steps, salt=salt, early=bool(early), eg=bool(eg), errors=run.errors[:2])


def rand_doc(rng, nicks=("n1", "n2", "n3")):
    d = {}
    for r in RELAYS:
        if rng.random() < 0.25:
            d[r] = dict(here=False, nick="", ip=0, flags=[], v6=0, bw=0, p=False)
        else:
            d[r] = dict(here=True, nick=rng.choice(nicks), ip=rng.choice([1, 2]),
                        flags=sorted(rng.choice([[], ["guard"], ["authority"], ["guard", "authority"]])),
                        v6=rng.choice([0, 0, 1, 2]), bw=rng.choice([0, 1, 2, 3]), p=rng.random() < 0.5)
    return d


class _Sink(object):
    def __call__(self, ev):
        pass


log.startLoggingWithObserver(_Sink(), setStdout=False)
