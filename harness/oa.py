"""C14: record the ADD_ONION line (tokenised by an independent parser), the custody of the key and the
DEL_ONION line for one requested ephemeral service (single-step vectors for spec/OnionAddTrace.tla)."""
import os
import sys

REPO = os.environ.get("VERIF_REPO", "/repo")
sys.path.insert(0, REPO)

from twisted.internet import defer                          # noqa: E402
from twisted.internet.address import IPv4Address            # noqa: E402
from twisted.python import failure, log                     # noqa: E402
from twisted.test import proto_helpers                      # noqa: E402

import txtorcon                                              # noqa: E402
from txtorcon import TorControlProtocol, TorConfig           # noqa: E402
from txtorcon.onion import (EphemeralOnionService, EphemeralAuthenticatedOnionService, AuthBasic, DISCARD)   # noqa: E402

import simtor                                                # noqa: E402

assert os.path.abspath(txtorcon.__file__).startswith(os.path.abspath(REPO)), txtorcon.__file__

SID = "sidsidsidsidsid3"
WARM_PORT = "Port=8080,127.0.0.1:18080"
REPLY_KEY = ["ED25519-V3", "UmVwbHlLZXk="]


class LazyPort(object):
    """a listening port whose stopListening() completes on a later reactor turn, as a real one does"""
    def __init__(self, reactor, port):
        self.reactor, self.port = reactor, port

    def getHost(self):
        return self.port.getHost()

    def startListening(self):
        pass

    def stopListening(self):
        from twisted.internet import defer
        d = defer.Deferred()
        self.reactor.stops.append(d)
        return d


class PortReactor(proto_helpers.MemoryReactorClock):
    """listenTCP(0, ...) hands out distinct port numbers, like an OS would"""
    def __init__(self, lazy=False):
        proto_helpers.MemoryReactorClock.__init__(self)
        self.next = 40001
        self.given = []
        self.lazy = lazy
        self.stops = []         # stopListening() calls not yet completed (lazy mode)

    def turn(self):
        """complete the pending stopListening() calls, one reactor turn each"""
        n = 0
        while self.stops and n < 50:
            n += 1
            self.stops.pop(0).callback(None)

    def listenTCP(self, port, factory, backlog=50, interface=""):
        if port == 0:
            port = self.next
            self.next += 1
        self.given.append((port, interface))
        p = proto_helpers.MemoryReactorClock.listenTCP(self, port, factory, backlog, interface)
        p._hostAddress = IPv4Address("TCP", interface or "0.0.0.0", port)
        return LazyPort(self, p) if self.lazy else p


def split_key(spec):
    if ":" in spec:
        t, b = spec.split(":", 1)
        return [t, b]
    return ["", spec]


def vector(req):
    """req: version, key{kind,type,body}, detach, single, auth, clients[{name,token}], ports[{form,pub,loc}]"""
    proto = TorControlProtocol()
    tr = proto_helpers.StringTransport()
    sim = simtor.SimTor(proto, tr)
    sim.info.update({"config/names": ["Nickname String"], "config/defaults": ["Nickname Unnamed"],
                     "onions/current": "", "onions/detached": ""})
    adds, dels = [], []
    wdels = [0]         # DEL_ONION commands that belong to the warm-up service
    warm = [0]          # ADD_ONION commands that belong to the warm-up service (req["reuse"])

    refuse = [0]        # ADD_ONION commands Tor refuses first (req["history"] == "refused")

    def add_onion(line):
        adds.append(line)
        if refuse[0]:
            refuse[0] -= 1
            return b"551 Failed to generate onion address\r\n"
        sid = SID if len(adds) > warm[0] else "warmupwarmupwar3"
        if req.get("viator"):
            sid = "warmupwarmupwar3" if WARM_PORT in line else SID
        out = "250-ServiceID=%s\r\n250-PrivateKey=%s:%s\r\n" % (sid, REPLY_KEY[0], REPLY_KEY[1])
        for tok in line.split()[1:]:
            if tok.startswith("ClientAuth=") and ":" not in tok:
                out += "250-ClientAuth=%s:generatedblob\r\n" % tok.split("=", 1)[1]
        return (out + "250 OK\r\n").encode()

    def del_onion(line):
        dels.append(line)
        if req.get("delfail") and len(dels) - wdels[0] == 1 and "warmup" not in line:
            return b"551 Internal error\r\n"        # the first removal attempt fails: the service is still there
        return b"250 OK\r\n"
    sim.handlers["ADD_ONION"] = add_onion
    sim.handlers["DEL_ONION"] = del_onion
    proto.makeConnection(tr)
    sim.pump()
    config = None
    if not req.get("viator"):
        d = TorConfig.from_protocol(proto)
        sim.pump()
        config = d.result
    reactor = PortReactor(lazy=bool(req.get("asyncports")))
    key = req["key"]
    if key["kind"] == "none":
        pk = None
    elif key["kind"] == "discard":
        pk = DISCARD
    elif key["kind"] == "bare":
        pk = key["body"]
    elif key["kind"] == "prefixed":
        pk = "%s:%s" % (key["type"], key["body"])
    else:
        pk = key["raw"]
    ports = []
    for p in req["ports"]:
        if p["form"] == "int":
            ports.append(p["pub"])
        elif p["form"] == "pair":
            ports.append((p["pub"], int(p["loc"].split(":")[1])))
        elif p["form"] == "pairstr":
            ports.append((p["pub"], p["loc"]))
        else:
            ports.append("%d %s" % (p["pub"], p["loc"]))
    fired = []
    rejected = False
    try:
        if req["auth"]:
            auth = AuthBasic([(c["name"], c["token"]) if c.get("given", bool(c["token"])) else c["name"] for c in req["clients"]])
            if req.get("reuse"):
                # the application's auth object has already been used for another service, whose
                # reply carried the cookies Tor generated for it; the request under test is unaffected
                warm[0] = 1
                w = EphemeralAuthenticatedOnionService.create(reactor, config, [8080], auth=auth, version=req["version"])
                w.addErrback(lambda f: None)
                reactor.turn()
                sim.pump()
                warm[0] = len(adds)
                reactor.given[:] = []
            d = EphemeralAuthenticatedOnionService.create(reactor, config, ports, detach=req["detach"], private_key=pk,
                                                          version=req["version"], auth=auth, single_hop=req["single"])
        elif req.get("viator"):
            # through Tor.create_onion_service on a Tor object whose configuration is not loaded yet, while another
            # request of the same kind is being made: both wait for the one configuration bootstrap
            tor = txtorcon.Tor(reactor, proto)
            sim.hold = lambda line: line == "GETINFO config/names"
            w = tor.create_onion_service(["8080 127.0.0.1:18080"], version=req["version"])
            w.addErrback(lambda f: None)
            d = tor.create_onion_service(ports, private_key=pk, version=req["version"], single_hop=req["single"],
                                         detach=req["detach"])
            d.addBoth(fired.append)
            # the caller goes on to use its list object for describing its next service, while Tor's configuration is
            # still being read: the request stands as it was made
            ports[:] = ["9999 127.0.0.1:1"]
            reactor.turn()
            sim.pump()
            sim.hold = None
            sim.release()
            reactor.turn()
            sim.pump()
            sim.event("650 HS_DESC UPLOAD warmupwarmupwar3 UNKNOWN $%s desc\r\n" % ("CD" * 20))
            sim.event("650 HS_DESC UPLOADED warmupwarmupwar3 UNKNOWN $%s\r\n" % ("CD" * 20))
            d = defer.Deferred()        # (already wired above)
        else:
            hist = req.get("history")
            if hist in ("removed", "refused", "single"):
                # earlier on this connection the application ran a service from the same key and removed it again (a
                # restart), or Tor refused its first attempt; the request under test is unaffected by either
                warm[0] = 1
                refuse[0] = 1 if hist == "refused" else 0
                got = []
                tor = txtorcon.Tor(reactor, proto, _tor_config=config) if req.get("via_tor") else None
                if tor is not None:
                    # both creations are requested through the same Tor object
                    w = tor.create_onion_service([8080], private_key=pk, version=req["version"], single_hop=(hist == "single"))
                else:
                    w = EphemeralOnionService.create(reactor, config, [8080], private_key=pk, version=req["version"])
                w.addBoth(got.append)
                reactor.turn()
                sim.pump()
                sim.event("650 HS_DESC UPLOAD warmupwarmupwar3 UNKNOWN $%s desc\r\n" % ("CD" * 20))
                sim.event("650 HS_DESC UPLOADED warmupwarmupwar3 UNKNOWN $%s\r\n" % ("CD" * 20))
                if got and not isinstance(got[0], failure.Failure):
                    got[0].remove().addErrback(lambda f: None)
                    sim.pump()
                warm[0] = len(adds)
                wdels[0] = len(dels)
                reactor.given[:] = []
            if hist in ("removed", "refused", "single") and req.get("via_tor"):
                d = tor.create_onion_service(ports, private_key=pk, version=req["version"], single_hop=req["single"],
                                             detach=req["detach"])
            else:
                d = EphemeralOnionService.create(reactor, config, ports, detach=req["detach"], private_key=pk,
                                                 version=req["version"], single_hop=req["single"])
        d.addBoth(fired.append)
        ports[:] = ["9999 127.0.0.1:1"]         # (the caller's list object is its own to reuse once the call has returned)
        reactor.turn()
        sim.pump()
        # let the descriptor wait finish (non-authenticated services)
        sim.event("650 HS_DESC UPLOAD %s UNKNOWN $%s desc\r\n" % (SID, "AB" * 20))
        sim.event("650 HS_DESC UPLOADED %s UNKNOWN $%s\r\n" % (SID, "AB" * 20))
    except Exception:
        rejected = True
    if fired and isinstance(fired[0], failure.Failure):
        rejected = True
    # the port the fake reactor handed out for int-form mappings
    alloc = [p for p, i in reactor.given]
    it = iter(alloc)
    for p in req["ports"]:
        if p["form"] == "int":
            try:
                p["loc"] = "127.0.0.1:%d" % next(it)
            except StopIteration:
                p["loc"] = "?"
    adds = adds[warm[0]:]
    del dels[:wdels[0]]
    if req.get("viator"):
        adds = [a for a in adds if WARM_PORT not in a]        # (the two requests' commands may go out in either order)
    obs = dict(rejected=rejected, nadd=len(adds), key=["", ""], ports=[], flags=[], cauth=[], hostname="", stored=[], after=[],
               sid=SID, replykey=REPLY_KEY, **{"del": ""})
    if adds:
        toks = adds[0].split(" ")
        obs["key"] = split_key(toks[1]) if len(toks) > 1 else ["", ""]
        for t in toks[2:]:
            if t.startswith("Port="):
                pub, loc = t[5:].split(",", 1)
                obs["ports"].append([int(pub) if pub.isdigit() else -1, loc])
            elif t.startswith("Flags="):
                obs["flags"] += t[6:].split(",")
            elif t.startswith("ClientAuth="):
                v = t[11:]
                # third field: a token was sent for the client (name:blob, the blob possibly empty) rather than the bare name
                obs["cauth"].append((v.split(":", 1) if ":" in v else [v, ""]) + [":" in v])
            else:
                obs["flags"].append("?" + t)
        if "\r" in adds[0] or "\n" in adds[0]:
            obs["flags"].append("?linebreak")
    onion = None
    if fired and not isinstance(fired[0], failure.Failure):
        onion = fired[0]
    elif config is not None and config.EphemeralOnionServices:
        onion = config.EphemeralOnionServices[-1]
    if onion is not None and not rejected:
        obs["hostname"] = onion.hostname or ""
        pkv = onion.private_key
        obs["stored"] = [] if pkv is None else (["DISCARD-OBJECT", ""] if pkv is DISCARD else split_key(pkv))
        try:
            dd = onion.remove()
            dd.addErrback(lambda f: None)
            sim.pump()
        except Exception:
            pass
        if req.get("delfail"):
            # the caller tries again: the removal request must go out again, for the same address
            try:
                dd = onion.remove()
                dd.addErrback(lambda f: None)
                sim.pump()
            except Exception:
                pass
            if len(dels) == 2 and dels[0] == dels[1]:
                dels.pop()
            elif len(dels) == 1:
                dels[0] = "DEL_ONION ?retry-not-sent"
        # custody outlives the service: what the caller can still read from the object once Tor has removed it
        pka = onion.private_key
        obs["after"] = [] if pka is None else (["DISCARD-OBJECT", ""] if pka is DISCARD else split_key(pka))
        if dels:
            obs["del"] = dels[0].split(" ", 1)[1] if " " in dels[0] else ""
        if len(dels) > 1:
            obs["del"] = "?multiple"
    for c in req["clients"]:
        c.setdefault("token", "")
        c.setdefault("given", bool(c["token"]))
    return dict(req=req, obs=obs)


class _Sink(object):
    def __call__(self, ev):
        pass


log.startLoggingWithObserver(_Sink(), setStdout=False)
