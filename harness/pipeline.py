"""The pipeline every behavioural check shares:
   TLC design check -> TLC-simulated + extra stimulus scripts -> replay into the real code
   -> batched TLC trace validation -> verdicts (violation / known finding / harness bug)."""
import json

import common
import tlc


def strip_obs(t):
    return [dict((k, v) for k, v in e.items() if k != "obs") for e in t["steps"]]


def design_check(rep, module, cfgs, timeout, expect_cex=()):
    for name in cfgs:
        r = tlc.run_tlc(module, name + ".cfg", workers=16, timeout=timeout)
        if r.timed_out and not r.invariant_violated:
            rep.cov["tlc_runs"].append(dict(name=name, generated=r.generated, distinct=r.distinct, depth=r.depth,
                                            wall_s=round(r.wall, 1), ok=True, complete=False))
            rep.cov["states"] += r.distinct
            rep.cov["transitions"] += r.generated
        else:
            rep.tlc(name, r)
    for name in expect_cex:
        r = tlc.run_tlc(module, name + ".cfg", workers=4, timeout=timeout)
        rep.cov["tlc_runs"].append(dict(name=name, generated=r.generated, distinct=r.distinct, expected="counterexample",
                                        got=r.invariant_violated))
        if not r.invariant_violated:
            rep.broken.append("%s: expected a counterexample (vacuity / deviation guard), got none\n%s" % (name, r.out[-600:]))


OBS_KEYS = ("obs", "res")


def _leaves(node, path=(), keys=OBS_KEYS):
    """paths to the scalar leaves below any observation key of a recorded trace"""
    if isinstance(node, dict):
        for k in sorted(node):
            for x in _leaves(node[k], path + (k,), keys):
                yield x
    elif isinstance(node, list):
        for i, v in enumerate(node):
            for x in _leaves(v, path + (i,), keys):
                yield x
    elif any(k in keys for k in path if isinstance(k, str)):
        yield path


def _corrupt(trace, path):
    t = json.loads(json.dumps(trace))
    node = t
    for k in path[:-1]:
        node = node[k]
    v = node[path[-1]]
    if isinstance(v, bool):
        node[path[-1]] = not v
    elif isinstance(v, int):
        node[path[-1]] = v + 7
    elif isinstance(v, str):
        node[path[-1]] = v + "~"
    else:
        return None
    return t


def selftest_from(rep, trace_module, trace_cfg, traces, res, keys=OBS_KEYS, extra_env=None):
    """pick the largest of the first accepted traces and self-test the trace specification on it"""
    ok = [t for t, x in zip(traces, res) if x["matched"] == x["wanted"] and not x.get("devs")][:50]
    if ok and "selftest" not in rep.cov:
        selftest(rep, trace_module, trace_cfg, max(ok, key=lambda t: len(json.dumps(t))), extra_env, keys=keys)


def selftest(rep, trace_module, trace_cfg, trace, extra_env=None, tries=8, keys=OBS_KEYS):
    """The binding is real only if the trace specification constrains what was observed: an accepted execution
    with one observed value falsified must be rejected.  Several single-field corruptions of one accepted trace
    are validated; fields the specification deliberately ignores may pass, but not all of them."""
    paths = list(_leaves(trace, (), keys))
    if not paths:
        return
    # one corruption per distinct observed field (its occurrence in the middle of the trace), so that every kind of
    # observation is falsified once; a few more spread evenly over the trace
    byname = {}
    for pth in paths:
        name = "/".join(str(k) for k in pth if isinstance(k, str) and k != "steps")
        byname.setdefault(name, []).append(pth)
    chosen = [v[len(v) // 2] for k, v in sorted(byname.items())][:16]
    step = max(1, len(paths) // tries)
    chosen += [pth for pth in paths[step // 2::step][:tries] if pth not in chosen]
    cands = [c for c in (_corrupt(trace, pth) for pth in chosen) if c is not None]
    if not cands:
        return
    res, _ = tlc.validate_traces(trace_module, trace_cfg, cands, 600, extra_env)
    rejected = sum(1 for c, x in zip(cands, res) if x["matched"] != x["wanted"])
    rep.cov["selftest"] = dict(corrupted_observations=len(cands), rejected=rejected)
    if rejected == 0:
        rep.broken.append("self-test: %d single-field corruptions of an accepted trace were all accepted by %s - the trace "
                          "specification does not constrain the observations" % (len(cands), trace_module))


def generate(rep, gen_module, gen_cfg, num, depth, seed, allvars=False, timeout=600):
    sims, out, wall = tlc.simulate(gen_module, gen_cfg, num, depth, seed, timeout=timeout, allvars=allvars)
    if not sims:
        rep.broken.append("TLC generated no behaviours:\n" + out[-800:])
    rep.cov["tlc_generated_behaviours"] = len(sims)
    return sims


def validate(rep, pid, module_name, trace_module, trace_cfg, traces, describe=None, payload=None, chunk=200, nproc=14,
             known=None, extra_env=None):
    """traces: list of dicts with 'steps' (+ anything replay needs).  Returns list of accepted traces."""
    res, runs = tlc.validate_parallel(trace_module, trace_cfg, traces, nproc=nproc, chunk=chunk, timeout=3000,
                                      **(dict(extra_env=extra_env) if extra_env else {}))
    for r in runs:
        rep.cov["states"] += r.distinct
        rep.cov["transitions"] += r.generated
    if len(res) != len(traces) or any(x["matched"] < 0 for x in res):
        rep.broken.append("trace validation produced no verdict:\n" + (runs[0].out[-1500:] if runs else ""))
        return []
    known = known or {}
    bad = [i for i, x in enumerate(res) if x["matched"] != x["wanted"]]
    ok = []
    for t, x in zip(traces, res):
        if x["matched"] == x["wanted"]:
            devs = x.get("devs") or []
            if devs and all(d in known for d in devs):
                for d in devs:
                    rep.known_finding(d, known[d]["what"])
                ok.append(t)
            elif devs:
                rep.violation("deviation(s) %s not listed in known_findings.json" % devs,
                              dict(property=pid, module=module_name, trace=payload(t) if payload else strip_obs(t)))
            else:
                ok.append(t)
    if bad:
        env, _ = tlc.validate_parallel(trace_module, trace_cfg, [traces[i] for i in bad[:60]], nproc=6,
                                       extra_env=dict(extra_env or {}, VMODE="env"))
        n = 0
        for i, e in zip(bad, env):
            x = res[i]
            t = traces[i]
            if e["matched"] != e["wanted"] and e["matched"] <= x["matched"]:
                rep.broken.append("illegal stimulus (harness bug) at step %d: %s" %
                                  (e["matched"] + 1, json.dumps(strip_obs(t)[max(0, e["matched"] - 6):e["matched"] + 1])[:800]))
                continue
            if n < 5:
                k = x["matched"]
                st = t["steps"][k]
                what = ("real execution is not a behaviour of %s: step %d %s; observed %s"
                        % (module_name, k + 1, json.dumps(dict((a, b) for a, b in st.items() if a != "obs"))[:300],
                           json.dumps(st.get("obs"))[:700]))
                if describe:
                    what += " " + describe(t)
                pl = dict(property=pid, module=module_name, matched=k, failing_step=st, errors=t.get("errors"))
                pl.update(payload(t) if payload else dict(script=strip_obs(t)))
                rep.violation(what, pl)
                n += 1
        rep.cov["rejected_traces"] = rep.cov.get("rejected_traces", 0) + len(bad)
    rep.cov["traces_validated_against_impl"] = (rep.cov.get("traces_validated_against_impl") or 0) + len(ok)
    if ok and "selftest" not in rep.cov:
        longest = max(ok[:50], key=lambda t: len(json.dumps(t)))
        selftest(rep, trace_module, trace_cfg, longest, extra_env)
    return ok
