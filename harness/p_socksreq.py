"""C06: SOCKS5 requests are RFC 1928 well-formed (spec/SocksReq*.tla)."""
import ipaddress
import json
import random

import tlc
import common
import pipeline
import sr

ASSUME = [
    "some host names are handed over as bytes (as twisted.web does), punycode labels included: the request carries exactly those bytes",
    "selections none_ok / badver_ok / m1_ok: after a refusal (or a wrong version) two more bytes arrive that look like a selection of "
    "'no authentication': the server's selection stands, no request is sent",
    "some CONNECT vectors are made while another connection to a different port of the same host, or a look-up of that host, is "
    "started before the proxy has answered ours: our request is unaffected",
    "TLC decides every recorded vector with the SocksReq grammar and proves the grammar's encoder/parser agree over a boundary grid; "
    "the breadth of inputs (ports, literals, hostnames) is enumerated / drawn by the Python driver",
    "packed address bytes of a literal are computed with Python's ipaddress module (independent of socks.py's inet_pton/inet_aton calls)",
    "RESOLVE of an IP literal may be sent either as a domain-typed request carrying the literal's text or as an address-typed request",
    "RESOLVE/RESOLVE_PTR requests carry port 0 (the API takes no port)",
    "every 4th vector is answered with a method selection other than 'no authentication in one segment' (split in two segments, "
    "method 1, method 2, no acceptable method, wrong version): a request may follow only a complete selection of method 0",
    "reverse lookups of text that inet_aton accepts as a legacy numeric IPv4 form ('5', '1.2') are not generated as hostnames",
]
PORTS = [0, 1, 80, 255, 256, 257, 4660, 32767, 32768, 65279, 65280, 65534, 65535]
V4 = ["0.0.0.0", "1.2.3.4", "127.0.0.1", "255.255.255.255", "10.0.0.255", "192.168.1.128"]
V6 = ["::", "::1", "2002:4493:5105::a299:9bff:fe0e:4471", "ffff:ffff:ffff:ffff:ffff:ffff:ffff:ffff",
      "fe80::1", "2001:db8::ff00:42:8329", "0:0:0:0:0:ffff:102:304"]


def hostnames(rng, n):
    out = ["a", "a.b", "example.com", "x" * 63 + ".com", "h" * 255, "h" * 254, "timaq4ygg2iegci7.onion",
           "a" * 256, "b" * 300, "c" * 1000, "café.example", "例え.jp", "xn--caf-dma.example",
           "UPPER.Example.COM", "with-dash.and_underscore.org", "1.2.3.4.5", "256.1.1.1"]
    al = "abcdefghijklmnopqrstuvwxyz0123456789-."
    for _ in range(n):
        ln = rng.choice([1, 2, 5, 17, 63, 64, 100, 200, 253, 254, 255, 256, 257])
        s = "".join(rng.choice(al) for _ in range(ln))
        if s[0] in ".-":
            s = "a" + s[1:]
        try:
            ipaddress.ip_address(s)
            continue
        except ValueError:
            pass
        out.append(s)
    for _ in range(max(2, n // 10)):
        ln = rng.choice([3, 20, 100])
        out.append("".join(rng.choice(["ä", "b", "Ж", "漢", "z"]) for _ in range(ln)) + "ü")
    return out


def _numeric_form(h):
    """legacy inet_aton shorthand ('5', '1.2', '0x10'): such text *is* an IPv4 address to the resolver
    library, so it is not used as a 'hostname' for reverse lookups"""
    import socket
    try:
        socket.inet_aton(h)
        return True
    except (OSError, UnicodeError, ValueError):
        return False


def vectors(tier, seed):
    rng = random.Random(seed)
    vs = []
    hosts = hostnames(rng, 40 if tier == "quick" else 2000)
    v4 = list(V4) + [str(ipaddress.IPv4Address(rng.getrandbits(32))) for _ in range(20 if tier == "quick" else 2000)]
    v6 = list(V6) + [str(ipaddress.IPv6Address(rng.getrandbits(128))) for _ in range(20 if tier == "quick" else 2000)]
    ports = list(PORTS) + [rng.randint(0, 65535) for _ in range(5)]
    for h in hosts:
        for p in (ports if len(h) < 20 else ports[:3]):
            vs.append(("CONNECT", "host", h, p))
        vs.append(("RESOLVE", "host", h, 0))
        if len(h) < 80 and not _numeric_form(h):
            vs.append(("RESOLVE_PTR", "host", h, 0))
    # the connection is to carry TLS (tls=True): the SOCKS target is still exactly the name given, a fully qualified
    # one with its trailing dot included
    tlsvs = []
    for h in ("example.com", "example.com.", "a.b.example.org.", "xn--bcher-kva.example."):
        for p in (443, 80, 65535):
            tlsvs.append(("CONNECT", "host", h, p, "ok", True))
            tlsvs.append(("CONNECT", "host", h, p, "ok", False))
    # IPv6 literals with a zone id, for reverse lookups: the zone cannot be sent, so the target is refused (not sent without it)
    for h in ("fe80::1%eth0", "::1%lo", "ff02::2%3", "fe80::dead:beef%12"):
        vs.append(("RESOLVE_PTR", "v6zone", h, 0))
    for a in v4:
        for p in (ports if a in V4 else ports[-3:]):
            vs.append(("CONNECT", "v4", a, p))
        vs.append(("RESOLVE_PTR", "v4", a, 0))
        vs.append(("RESOLVE", "v4", a, 0))
    for a in v6:
        for p in (ports if a in V6 else ports[-3:]):
            vs.append(("CONNECT", "v6", a, p))
        vs.append(("RESOLVE_PTR", "v6", a, 0))
        vs.append(("RESOLVE", "v6", a, 0))
    # the server's method selection: mostly 'no authentication' in one segment; every 4th vector another reply
    sels = ["split", "m2", "m2split", "none", "badver", "m1", "split", "sync", "sync", "coalesced", "coalesced", "none_ok", "badver_ok", "m1_ok", "lost_ok", "losthalf_ok"]
    vs = [v + (("ok",) if i % 4 else (sels[(i // 4) % len(sels)],)) for i, v in enumerate(vs)]
    vs += tlsvs
    # host names handed over as bytes (as twisted.web's URI.host is), punycode labels included
    for h in (b"example.com", b"xn--bcher-kva.example", b"www.xn--80ak6aa92e.com", b"XN--BCHER-KVA.example", b"a.b.example.org."):
        for p in (80, 443):
            vs.append(("CONNECT", "host", h, p, "ok", False))
            vs.append(("CONNECT", "host", h, p, "split", True))
    # overlapping use of one host: while our request waits for the proxy's method selection, a connection to another port
    # of the same host - or a look-up of it - is started
    for h, k in (("www.example.org", "host"), ("198.51.100.20", "v4"), ("2001:db8::7", "v6"), ("onion.example.com", "host")):
        for p in (80, 443, 22, 65535, 1):
            vs.append(("CONNECT", k, h, p, "ok", False, "connect"))
            vs.append(("CONNECT", k, h, p, "split", False, "resolve" if k == "host" else "ptr"))
    if tier == "thorough":
        for p in range(65536):
            vs.append(("CONNECT", "host", "p.example", p, "ok"))
            vs.append(("CONNECT", "v4", "10.11.12.13", p, "split" if p % 2 else "ok"))
            vs.append(("CONNECT", "v6", "2001:db8::1", p, "ok"))
    return vs


def run(pid, tier, seed):
    rep = common.Report(pid, tier, seed)
    rep.assumptions = list(ASSUME)
    rep.tlc("SocksReq_MC (grammar round trip)", tlc.run_tlc("SocksReq", "SocksReq_MC.cfg", workers=4, timeout=300))
    vs = vectors(tier, seed)
    recs = [sr.vector(*v) for v in vs]
    rep.cov["evaluations"] = len(recs)
    rep.cov["distinct_nontrivial"] = len(set((r["req"], r["kind"], r["host"], r["port"], r["sel"]) for r in recs))
    rep.cov["rule"] = ("vectors (request type x target x port): boundary and random hostnames (lengths 1..1000, non-ASCII), IPv4/IPv6 "
                       "literals (boundary + random), boundary ports%s; every vector goes through TorSocksEndpoint.connect / resolve / "
                       "resolve_ptr and is non-trivial (a request must be produced or refused); distinct by (type, target, port)"
                       % (" and all 65536 ports for each address kind" if tier == "thorough" else ""))
    traces = [dict(r, steps=[1]) for r in recs]
    for t in traces:
        t.pop("host")
    res, runs = tlc.validate_parallel("SocksReqTrace", "SocksReqTrace.cfg", traces, nproc=14, chunk=3000, timeout=3000)
    pipeline.selftest_from(rep, "SocksReqTrace", "SocksReqTrace.cfg", traces, res, keys=("first", "mid", "second", "err"))
    for r in runs:
        rep.cov["states"] += r.distinct
        rep.cov["transitions"] += r.generated
    if any(x["matched"] < 0 for x in res) or len(res) != len(traces):
        rep.broken.append("vector validation produced no verdict:\n" + runs[0].out[-1500:])
    known = dict((f["id"], f) for f in common.open_findings(pid))
    nviol = 0
    ok = 0
    for rec, x in zip(recs, res):
        if x["matched"] == 1 and not x["devs"]:
            ok += 1
        elif x["matched"] == 1 and x["devs"]:
            for d in x["devs"]:
                if d in known:
                    rep.known_finding(d, known[d]["what"])
                    ok += 1
                else:
                    nviol += 1
                    if nviol <= 5:
                        rep.violation("deviation %s is not listed in known_findings.json: %s" % (d, json.dumps(rec)[:300]), dict(property=pid, vector=rec))
        else:
            nviol += 1
            if nviol <= 5:
                rep.violation("request for %s %r port %d (method selection %s) is not what RFC 1928 requires: first=%s second=%s err=%s"
                              % (rec["req"], rec["host"][:40], rec["port"], rec["sel"], bytes(rec["first"]).hex(),
                                 bytes(rec["second"][:48]).hex(), rec["err"]),
                              dict(property=pid, module="SocksReq", vector=rec))
    rep.cov["rejected_vectors"] = nviol
    rep.cov["traces_validated_against_impl"] = ok
    samp = [r for r in recs if r["kind"] == "host" and len(r["name"]) < 15][:1] + [r for r in recs if r["kind"] == "v6" and r["req"] == "RESOLVE_PTR"][:1]
    rep.cov["samples"] = samp
    return rep.finish()


def replay(pid, path):
    p = json.load(open(path))
    v = p["vector"]
    rec = sr.vector(v["req"], v["kind"], v["host"].encode("latin-1") if v.get("hostbytes") else v["host"], v["port"], v.get("sel", "ok"), v.get("tls", False), v.get("beside", ""))
    t = dict(rec, steps=[1])
    t.pop("host")
    res, r = tlc.validate_traces("SocksReqTrace", "SocksReqTrace.cfg", [t])
    x = res[0]
    known = set(f["id"] for f in common.open_findings(pid))
    if x["matched"] != 1 or (set(x["devs"]) - known):
        print("VIOLATION property=%s replay=%s" % (pid, path))
        print("  " + json.dumps(rec)[:500])
        return 1
    print("replay: accepted", x)
    return 0
