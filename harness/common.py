"""Shared plumbing for ./check: evidence files, replay files, verdict lines."""
import hashlib
import json
import os
import sys
import time

HERE = os.path.dirname(os.path.abspath(__file__))
VERIF = os.path.dirname(HERE)
EVID = os.environ.get("VERIF_EVIDENCE_DIR") or os.path.join(VERIF, "evidence")   # override only for trying seeded changes
REPLAYS = os.path.join(EVID, "replays")
KNOWN = os.path.join(VERIF, "known_findings.json")


def known_findings():
    try:
        return json.load(open(KNOWN))
    except IOError:
        return {"open": [], "fixed": []}


def open_findings(pid):
    return [f for f in known_findings().get("open", []) if f["property"] == pid]


def digest(obj):
    return hashlib.sha1(json.dumps(obj, sort_keys=True).encode()).hexdigest()[:12]


def save_replay(pid, payload):
    os.makedirs(REPLAYS, exist_ok=True)
    path = os.path.join(REPLAYS, "%s-%s.json" % (pid, digest(payload)))
    with open(path, "w") as f:
        json.dump(payload, f, indent=1, sort_keys=True)
    return path


class Report(object):
    """collects what a check run covered and what it found"""

    def __init__(self, pid, tier, seed, level="model_checking"):
        self.pid, self.tier, self.seed, self.level = pid, tier, seed, level
        self.t0 = time.time()
        self.cov = dict(states=0, transitions=0, traces_validated_against_impl=0, samples=[],
                        evaluations=0, distinct_nontrivial=0, rule="", tlc_runs=[])
        self.assumptions = []
        self.violations = []      # (what, replay path)
        self.known = []           # KNOWN-FINDING lines
        self.broken = []          # machinery failures

    def tlc(self, name, r, expect_ok=True):
        self.cov["tlc_runs"].append(dict(name=name, generated=r.generated, distinct=r.distinct,
                                         depth=r.depth, wall_s=round(r.wall, 1), ok=bool(r.ok),
                                         violated=r.invariant_violated,
                                         actions=dict(r.coverage) if r.coverage else None))
        self.cov["states"] += r.distinct
        self.cov["transitions"] += r.generated
        if expect_ok and not r.ok:
            if r.invariant_violated:
                self.violations.append(("model: %s violated in %s" % (r.invariant_violated, name), None))
            else:
                self.broken.append("TLC run %s failed:\n%s" % (name, r.out[-1500:]))

    def violation(self, what, payload):
        path = save_replay(self.pid, payload)
        self.violations.append((what, path))

    def known_finding(self, fid, what):
        line = "KNOWN-FINDING: property=%s %s %s" % (self.pid, fid, what)
        if line not in self.known:
            self.known.append(line)

    def finish(self):
        wall = time.time() - self.t0
        cov = self.cov
        cov["known_findings_printed"] = list(self.known)
        ev = dict(property_id=self.pid, tier=self.tier, seed=self.seed, level=self.level,
                  coverage=cov, assumptions=self.assumptions, wall_s=round(wall, 2),
                  violations=len(self.violations))
        os.makedirs(EVID, exist_ok=True)
        with open(os.path.join(EVID, "%s.json" % self.pid), "w") as f:
            json.dump(ev, f, indent=1)
        for line in self.known:
            print(line)
        if self.broken:
            for b in self.broken[:3]:
                print("BROKEN: %s" % b)
            if len(self.broken) > 3:
                print("BROKEN: ... and %d more" % (len(self.broken) - 3))
            print("RESULT property=%s tier=%s machinery failure" % (self.pid, self.tier))
            return 2
        for what, path in self.violations:
            print("VIOLATION property=%s replay=%s" % (self.pid, path or "-"))
            print("  " + what)
        print("RESULT property=%s tier=%s states=%d transitions=%d traces=%d violations=%d wall=%.1fs"
              % (self.pid, self.tier, cov["states"], cov["transitions"],
                 cov["traces_validated_against_impl"], len(self.violations), wall))
        return 1 if self.violations else 0
