"""C04: authentication order, method preference, SAFECOOKIE discipline (spec/Auth*.tla)."""
import json
import random

import common
import pipeline
import tlc
import au

ASSUME = [
    "cookie contents: random bytes, in two of three runs ending in a line-feed or carriage-return byte; an over-long file is a valid "
    "cookie followed by 'x', LF, CR LF or CR",
    "the scripted server computes real HMAC-SHA256 values over the real cookie file, the client's fresh nonce (read off the wire) and "
    "a fresh server nonce; HMAC / hex correctness of the client proof is compared by the harness (argument class 'proof')",
    "cookie files are real temporary files: missing, 31 bytes, 33 bytes, 32 bytes, and 32 bytes under a path that needs \\\" and \\\\ unescaping",
    "where the statement is silent (a cookie method advertised but the cookie unusable) refusing is accepted as well as falling "
    "through to a lower method; a wrong-length cookie must always be refused",
    "advertised methods are rendered in a rotated order per trace; an empty METHODS list is included",
]


def run(pid, tier, seed):
    rep = common.Report(pid, tier, seed)
    rep.assumptions = list(ASSUME)
    pipeline.design_check(rep, "Auth", ["Auth_MC"], timeout=600)
    r = tlc.run_tlc("Auth_Gen", "Auth_GenAll.cfg", workers=1, timeout=900)
    leaves = tlc.printed_values(r.out, "BEH")
    rep.cov["tlc_generated_behaviours"] = len(leaves)
    if not leaves:
        rep.broken.append("TLC emitted no behaviours:\n" + r.out[-800:])
    rng = random.Random(seed)
    if tier == "quick":
        rng.shuffle(leaves)
        leaves = leaves[: len(leaves) * 3 // 10]
    traces, seen = [], set()
    for i, (_, scen, hist) in enumerate(leaves):
        orders = [seed + i] if tier == "quick" else [0, 1, 2]
        for o in orders:
            traces.append(au.replay(scen, hist, o))
        if len(hist) >= 3:
            seen.add(common.digest([scen, hist]))
    rep.cov["evaluations"] = len(traces)
    rep.cov["distinct_nontrivial"] = len(seen)
    rep.cov["exhaustive"] = tier == "thorough"
    rep.cov["rule"] = ("complete behaviours of Auth enumerated by TLC (every leaf of the tree: 16 method subsets x 6 cookie-file "
                       "conditions x 6 password providers x every server behaviour at every step incl. disconnects); %s; each "
                       "replayed into a real TorControlProtocol; distinct by (scenario, script); non-trivial = the server answered "
                       "PROTOCOLINFO and at least one more step followed" %
                       ("a seed-selected 30% in quick" if tier == "quick" else "all of them under three orders of the METHODS list"))
    ok = pipeline.validate(rep, pid, "Auth", "AuthTrace", "AuthTrace.cfg", traces, chunk=500,
                           payload=lambda t: dict(scen=t["scen"], script=pipeline.strip_obs(t), order=t["order"]),
                           describe=lambda t: "(scenario %s)" % json.dumps(t["scen"]))
    rep.cov["samples"] = [dict(scen=t["scen"], steps=t["steps"]) for t in ok if len(t["steps"]) >= 6][:1] or [dict(scen=t["scen"], steps=t["steps"]) for t in ok[:1]]
    return rep.finish()


def replay(pid, path):
    p = json.load(open(path))
    t = au.replay(p["scen"], p["script"], p.get("order", 0))
    res, r = tlc.validate_traces("AuthTrace", "AuthTrace.cfg", [t])
    x = res[0]
    print("replay: matched %d of %d steps" % (x["matched"], x["wanted"]))
    if x["matched"] != x["wanted"]:
        print("VIOLATION property=%s replay=%s" % (pid, path))
        return 1
    return 0
