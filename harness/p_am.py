"""C20: address map (spec/AddrMapM*.tla)."""
import json
import random

import tlc
import common
import pipeline
import am

ASSUME = [
    "every other execution feeds the map of a real TorState over a control connection: the script's leading events arrive half as "
    "the bootstrap's GETINFO address-mappings/all answer and half as ADDRMAP events right after the ADDRMAP subscription is "
    "acknowledged (while the bootstrap is still running); the map is compared once they are all in",
    "the wall clock used inside txtorcon.addrmap (datetime.utcnow) is replaced, in the harness process only, by one that follows the "
    "twisted task.Clock driving the timers; TZ=UTC so the local-time and UTC EXPIRES syntaxes denote the same instant",
    "several events may arrive within one reactor turn: zero-delay timers (mappings already expired on arrival) run at the next "
    "Advance, which may be by 0; the lookup clauses are waived for such an entry until the reactor has turned",
    "each name has its own pool of addresses plus one address both names may be mapped to (its key belongs to the name mapped to it "
    "last and goes when that mapping goes)",
    "a third of the executions have a listener that looks the mapping up from inside its 'expired' handler (it must be gone), another "
    "third a second listener whose 'expired' handler raises (the map must be unaffected; a reactor logs the error and goes on)",
    "the model's tick is replayed as 7 s, 5 h and 13 h (offsets then cross 24 h and reach several days)",
]
TICKS = [7, 5 * 3600, 13 * 3600]
SYNTAXES = ["local", "utc", "cached"]


def rand_script(rng, n):
    s = []
    now, exp = 0, {}
    for _ in range(n):
        overdue = [x for x, t in exp.items() if t != am.NEVER and t <= now]
        r = rng.random()
        if overdue and r < 0.45:
            s.append(dict(a="Advance", dt=0))          # a reactor turn without passage of time
            dt = 0
        elif r < 0.65:
            nm = rng.choice(overdue) if overdue and rng.random() < 0.7 else rng.choice(["n1", "n2"])
            pool = ["a1", "a2", "s"] if nm == "n1" else ["b1", "b2", "s"]       # (s: an address both names may be mapped to)
            addr = rng.choice(pool + pool + ["<error>"])
            k = rng.choice([-2, -1, 0, 1, 1, 2, 3, 5, 8, am.NEVER])
            s.append(dict(a="Event", n=nm, addr=addr, k=k))
            if addr == "<error>":
                exp.pop(nm, None)
            else:
                exp[nm] = am.NEVER if k == am.NEVER else now + k
            continue
        else:
            dt = rng.choice([1, 1, 2, 3])
            s.append(dict(a="Advance", dt=dt))
        now += dt
        for x in [x for x, t in exp.items() if t != am.NEVER and t <= now]:
            del exp[x]
    return s


def run(pid, tier, seed):
    rep = common.Report(pid, tier, seed)
    rep.assumptions = list(ASSUME)
    rep.tlc("AddrMapM_MC_" + tier, tlc.run_tlc("AddrMapM_MC", "AddrMapM_MC_%s.cfg" % tier, workers=16, timeout=900))
    rep.tlc("AddrMapM_MC_shared", tlc.run_tlc("AddrMapM_MC", "AddrMapM_MC_shared.cfg", workers=16, timeout=900))
    rng = random.Random(seed)
    num = 300 if tier == "quick" else 3000
    sims, out, wall = tlc.simulate("AddrMapM_Gen", "AddrMapM_Gen.cfg", num, 14 if tier == "quick" else 25, seed)
    if not sims:
        rep.broken.append("TLC generated no behaviours:\n" + out[-800:])
    scripts = [("tlc", h) for h in sims] + [("random", rand_script(rng, rng.choice([10, 25, 60])))
                                            for _ in range(200 if tier == "quick" else 3000)]
    rep.cov["tlc_generated_behaviours"] = len(sims)
    traces, seen = [], set()
    for i, (src, s) in enumerate(scripts):
        combos = [(TICKS[(i + j) % 3], SYNTAXES[(i // 3 + j) % 3]) for j in range(3)] if tier == "thorough" or src == "tlc" \
            else [(TICKS[i % 3], SYNTAXES[(i // 3) % 3])]
        for j, (tick, syn) in enumerate(combos):
            # every other script is fed to the map of a real TorState over a control connection (its leading events
            # as the bootstrap's address-mappings snapshot and as events that arrive during the bootstrap)
            feed = "state" if (i + j) % 2 else "direct"
            t = am.replay(s, tick, syn, ["plain", "probe", "raise"][i % 3], feed)
            t["src"] = src
            traces.append(t)
        if any(e["a"] == "Advance" for e in s) and sum(1 for e in s if e["a"] == "Event") >= 2:
            seen.add(common.digest(s))
    rep.cov["evaluations"] = len(traces)
    rep.cov["distinct_nontrivial"] = len(seen)
    rep.cov["rule"] = ("stimulus scripts (ADDRMAP events over 2 names x 2 addresses each, expiry offsets -2..8 ticks / NEVER / <error>, clock "
                       "advances): TLC -simulate behaviours of AddrMapM_Gen plus seeded random scripts, each replayed with tick = 7 s / 5 h / "
                       "13 h and the three EXPIRES syntaxes; distinct scripts by hash; non-trivial = >= 2 events and a clock advance")
    res, runs = tlc.validate_parallel("AddrMapMTrace", "AddrMapMTrace.cfg", traces, nproc=12, chunk=300)
    direct = [i for i, t in enumerate(traces) if t["feed"] == "direct"]        # (every step of these is observed)
    pipeline.selftest_from(rep, "AddrMapMTrace", "AddrMapMTrace.cfg", [traces[i] for i in direct], [res[i] for i in direct])
    for r in runs:
        rep.cov["states"] += r.distinct
        rep.cov["transitions"] += r.generated
    if len(res) != len(traces) or any(x["matched"] < 0 for x in res):
        rep.broken.append("trace validation produced no verdict:\n" + runs[0].out[-1500:])
    bad = [i for i, x in enumerate(res) if x["matched"] != x["wanted"]]
    if bad and not rep.broken:
        env, _ = tlc.validate_parallel("AddrMapMTrace", "AddrMapMTrace.cfg", [traces[i] for i in bad[:60]], nproc=6,
                                       extra_env={"VMODE": "env"})
        n = 0
        for i, e in zip(bad, env):
            x = res[i]
            if e["matched"] != e["wanted"] and e["matched"] <= x["matched"]:
                rep.broken.append("illegal stimulus (harness bug) at step %d: %s" % (e["matched"] + 1, json.dumps(strip(traces[i]))[:400]))
                continue
            if n < 5:
                k = x["matched"]
                st = traces[i]["steps"][k]
                rep.violation("real execution is not a behaviour of AddrMapM (tick %ds, syntax %s, listener mode %s): step %d %s observed %s"
                              % (traces[i]["tick"], traces[i]["syntax"], traces[i]["lmode"], k + 1,
                                 json.dumps(dict((a, b) for a, b in st.items() if a != "obs")), json.dumps(st["obs"])),
                              dict(property=pid, module="AddrMapM", tick=traces[i]["tick"], syntax=traces[i]["syntax"], lmode=traces[i]["lmode"], feed=traces[i]["feed"],
                                   script=strip(traces[i]), matched=k, failing_step=st, errors=traces[i]["errors"]))
                n += 1
        rep.cov["rejected_traces"] = len(bad)
    ok = [t for t, x in zip(traces, res) if x["matched"] == x["wanted"]]
    rep.cov["traces_validated_against_impl"] = len(ok)
    rep.cov["samples"] = [dict(tick=t["tick"], syntax=t["syntax"], steps=t["steps"][:6]) for t in ok[:2]]
    return rep.finish()


def strip(t):
    return [dict((k, v) for k, v in e.items() if k != "obs") for e in t["steps"]]


def replay(pid, path):
    p = json.load(open(path))
    t = am.replay(p["script"], p["tick"], p["syntax"], p.get("lmode", "plain"), p.get("feed", "direct"))
    res, r = tlc.validate_traces("AddrMapMTrace", "AddrMapMTrace.cfg", [t])
    x = res[0]
    print("replay: matched %d of %d steps" % (x["matched"], x["wanted"]))
    if x["matched"] != x["wanted"]:
        print("VIOLATION property=%s replay=%s" % (pid, path))
        print("  step %d: %s" % (x["matched"] + 1, json.dumps(t["steps"][x["matched"]])[:600]))
        return 1
    return 0
