"""C10 / C11: replay Config behaviours into a real TorConfig attached to a real
TorControlProtocol served by SimTor (whose SETCONF semantics are the model's)."""
import os
import sys

REPO = os.environ.get("VERIF_REPO", "/repo")
sys.path.insert(0, REPO)

from twisted.python import failure, log                  # noqa: E402
from twisted.test import proto_helpers                   # noqa: E402

import txtorcon                                           # noqa: E402
from txtorcon import TorControlProtocol, TorConfig        # noqa: E402
from txtorcon.torconfig import _ListWrapper               # noqa: E402

import simtor                                             # noqa: E402

assert os.path.abspath(txtorcon.__file__).startswith(os.path.abspath(REPO)), txtorcon.__file__

# candidate real options for each role: (name, declared type, token -> wire text)
ROLES = {
    "s1": [("Nickname", "String", {"a": "alpha", "b": "beta", "dflt": "Unnamed"}),
           ("AvoidDiskWrites", "Boolean", {"a": "1", "b": "0", "dflt": "0"}),
           ("PathBiasNoticeRate", "Float", {"a": "0.5", "b": "2.5", "dflt": "0.25"})],
    "s2": [("NumCPUs", "Integer", {"a": "1", "b": "4", "dflt": "0"}),
           ("RefuseUnknownExits", "Boolean+Auto", {"a": "auto", "b": "1", "dflt": "0"})],
    "l1": [("Log", "LineList", {"x": "notice stdout", "y": "debug file /tmp/t x.log", "z": "info syslog", "d1": "notice file /var/log/tor/n.log",
                                "DEFAULT": "DEFAULT"}),
           ("MapAddress", "LineList", {"x": "a.example b.example", "y": "*.c.example 10.0.0.1", "z": "d e", "d1": "x.example y.example",
                                       "DEFAULT": "DEFAULT"}),
           ("Log", "LineList", {"x": "9052", "y": "9051 IsolateDestAddr", "z": "unix:/tmp/s.sock", "d1": "9050", "DEFAULT": "DEFAULT"})],
    # (index 2 of l1: the texts of l2's table, so that a value copied from one list option to the other keeps its tokens)
    "l2": [("SocksPort", "PortLines", {"x": "9052", "y": "9051 IsolateDestAddr", "z": "unix:/tmp/s.sock", "d1": "9050",
                                       "DEFAULT": "DEFAULT"}),
           # a port option Tor has no built-in default for: no config/defaults entry, __TransPort unset
           ("TransPort", "PortLines", {"x": "9040", "y": "9041 IsolateDestAddr", "z": 0, "DEFAULT": "DEFAULT"})],      # (z: the number 0, as ports are often given)
}


def parse_setconf(line):
    """SimTor's own reading of a SETCONF line (kvline grammar)"""
    assert line.startswith("SETCONF")
    s = line[7:]
    i, out = 0, []
    while i < len(s):
        if s[i] in " \t":
            i += 1
            continue
        j = i
        while j < len(s) and s[j] not in " \t=":
            j += 1
        key = s[i:j]
        if j >= len(s) or s[j] != "=":
            out.append([key, ""])
            i = j
            continue
        j += 1
        if j < len(s) and s[j] == '"':
            j += 1
            val = ""
            while s[j] != '"':
                if s[j] == "\\":
                    j += 1
                    val += {"n": "\n", "r": "\r", "t": "\t"}.get(s[j], s[j])
                else:
                    val += s[j]
                j += 1
            j += 1
        else:
            k = j
            while k < len(s) and s[k] not in " \t":
                k += 1
            val = s[j:k]
            j = k
        out.append([key, val])
        i = j
    return out


def py_value(typ, wire):
    if typ == "Boolean":
        return wire == "1"
    if typ == "Boolean+Auto":
        return -1 if wire == "auto" else int(wire)
    if typ == "Integer":
        return int(wire)
    if typ == "Float":
        return float(wire)
    return wire


def wire_value(typ, v):
    if typ == "Boolean":
        return "1" if v is True else "0" if v is False else "?%r" % (v,)
    if typ == "Boolean+Auto":
        return "auto" if v == -1 else str(v)
    if typ == "Float":
        return repr(float(v)) if isinstance(v, float) else "?%r" % (v,)
    return str(v)


PYTYPE = {"Boolean": bool, "Boolean+Auto": int, "Integer": int, "Float": float, "String": str}


class Run(object):
    def __init__(self, pick):
        self.pick = pick                       # role -> index into ROLES[role]
        self.opt = dict((r, ROLES[r][pick[r]]) for r in ROLES)
        if pick.get("ez"):
            # the first list option's token z is the empty text: Tor reports the option with one value, which is empty
            # ("Log=" rather than "Log")
            n, t, c = self.opt["l1"]
            self.opt["l1"] = (n, t, dict(c, z=""))
        self.proto = TorControlProtocol()
        self.tr = proto_helpers.StringTransport()
        self.sim = simtor.SimTor(self.proto, self.tr)
        self.sim.hold = lambda line: line.startswith("SETCONF")
        self.sim.handlers["SETCONF"] = self.apply_setconf
        self.sim.strict_events = True        # announcements reach the connection only while it is subscribed to them
        names, defaults = [], []
        for r, (name, typ, conc) in sorted(self.opt.items()):
            if typ == "PortLines":
                names += ["%s Dependent" % name, "%sLines Dependent" % name, "__%s Dependent" % name]
            else:
                names.append("%s %s" % (name, typ))
            if "dflt" in conc or "d1" in conc:
                defaults.append("%s %s" % (name, conc["dflt"] if "dflt" in conc else conc["d1"]))
        self.sim.info["config/names"] = names
        self.sim.info["config/defaults"] = defaults
        self.sim.info["onions/current"] = ""
        self.sim.info["onions/detached"] = ""
        self.config = None
        self.exc = False
        self.errors = []
        self.nlog = 0
        self.evq = []            # Tor's announcements not yet delivered: (lower-case option name, values)
        self.proto.makeConnection(self.tr)
        self.sim.pump()

    def names(self):
        return dict((r, self.opt[r][0].lower()) for r in self.opt)

    def conc(self):
        return dict((r, dict((t, str(v)) for t, v in self.opt[r][2].items())) for r in self.opt)

    def apply_setconf(self, line):
        """Tor applies the SETCONF and queues one announcement naming every option whose value changed"""
        seen, changed = [], []
        for key, _ in parse_setconf(line):
            if key.lower() in seen:
                continue
            seen.append(key.lower())
            vals = [v for k, v in parse_setconf(line) if k.lower() == key.lower()]
            new = [] if vals == [""] else vals
            old = self.sim.conf.get(key.lower()) or []
            self.sim.conf[key.lower()] = new
            if new != old:
                changed.append((key.lower(), list(new)))
        if changed:
            self.evq.append(changed)
        return b"250 OK\r\n"

    def announce(self, changes):
        self.sim.event(self.event_text(changes))

    def event_text(self, changes):
        text = "650-CONF_CHANGED\r\n"
        for lname, vals in changes:
            name = [n for (n, t, c) in self.opt.values() if n.lower() == lname][0]
            if vals:
                for v in vals:
                    text += "650-%s=%s\r\n" % (name, v)
            else:
                text += "650-%s\r\n" % name
        text += "650 OK\r\n"
        return text

    def concrete(self, chs):
        out = []
        for c in chs:
            name, typ, conc = self.opt[c["o"]]
            out.append((name.lower(), [str(conc[t]) for t in c["v"]]))
        return out

    def role_of(self, name):
        for r, (n, t, c) in self.opt.items():
            if n.lower() == name.lower():
                return r
        return None

    skipview = ()

    def step(self, e):
        a = e["a"]
        self.skipview = e.get("skipview", ())
        try:
            if a == "Attach":
                for r, vals in e["store"].items():
                    name, typ, conc = self.opt[r]
                    self.sim.conf[name.lower()] = [str(conc[t]) for t in vals]
                if self.pick.get("midboot"):
                    # another controller changes an option while we are still reading the configuration: Tor
                    # answers our GETCONF for it with the old value and announces the new one (the store's)
                    # before it answers our next command
                    r = self.pick["midboot"]
                    name, typ, conc = self.opt[r]
                    final = list(self.sim.conf[name.lower()])
                    old = [conc["x" if r.startswith("l") else "a"]] if final != [conc["x" if r.startswith("l") else "a"]] \
                        else [conc["y" if r.startswith("l") else "b"]]
                    self.sim.conf[name.lower()] = old
                    state = dict(asked=False, done=False)
                    orig_answer = self.sim.answer

                    def answer(line, run=self, lname=name.lower(), final=final):
                        if state["asked"] and not state["done"]:
                            state["done"] = True
                            run.sim.conf[lname] = final
                            run.proto.dataReceived(run.event_text([(lname, final)]).encode("latin-1"))
                        if line.upper().startswith("GETCONF ") and line.split(" ", 1)[1].lower() == lname:
                            state["asked"] = True
                        return orig_answer(line)
                    self.sim.answer = answer
                if self.pick.get("offline"):
                    # launch()-style: a config populated offline (under the caller's spelling of the
                    # option names) is attached to the running Tor afterwards
                    c = TorConfig()
                    for r in ("s1", "l2"):
                        name, typ, conc = self.opt[r]
                        odd = name.upper()
                        if self.pick.get("probe"):
                            # as launch() does: see whether the caller has set the option (under the usual spelling) first
                            try:
                                getattr(c, name)
                            except (KeyError, AttributeError):
                                pass
                        if r.startswith("s"):
                            setattr(c, odd, py_value(typ, conc["a"]))
                        else:
                            setattr(c, odd, [conc["x"]])
                    d = c.attach_protocol(self.proto)
                else:
                    d = TorConfig.from_protocol(self.proto)
                if self.pick.get("extral"):
                    # the application subscribes to an event of its own right away, before Tor has answered anything
                    # of the configuration's bootstrap
                    self.proto.add_event_listener("STREAM", lambda text: None)
                self.sim.pump()
                if not d.called or isinstance(d.result, failure.Failure):
                    self.exc = True
                    self.errors.append("bootstrap failed: %r" % (getattr(d, "result", None),))
                    if d.called:
                        d.addErrback(lambda f: None)
                    self.config = None
                else:
                    self.config = d.result
            elif a == "Assign":
                name, typ, conc = self.opt[e["o"]]
                if e["o"].startswith("s"):
                    val = py_value(typ, conc[e["v"][0]])
                elif e.get("bare"):
                    val = str(conc[e["v"][0]])          # a bare string given to a list-valued (port) option
                else:
                    val = [conc[t] for t in e["v"]]
                spelled = name if (len(e["v"]) % 2) else name.lower()     # names are matched case-insensitively
                setattr(self.config, spelled, val)
            elif a == "AssignFrom":
                # cfg.o = cfg.o2: the object that reading the other option returns
                setattr(self.config, self.opt[e["o"]][0], getattr(self.config, self.opt[e["from"]][0]))
            elif a == "ListOp":
                name, typ, conc = self.opt[e["o"]]
                lst = getattr(self.config, name)
                old = [conc[t] for t in e["old"]]
                new = [conc[t] for t in e["v"]]
                if len(new) == len(old) + 2:
                    lst.extend(new[-2:])
                elif len(new) == len(old) + 1:
                    i = [k for k in range(len(new)) if new[:k] + new[k + 1:] == old][0]
                    if i == len(old):
                        lst.append(new[i])
                    else:
                        lst.insert(i, new[i])
                elif len(new) == len(old) - 1:
                    i = [k for k in range(len(old)) if old[:k] + old[k + 1:] == new][0]
                    if old.index(old[i]) == i and i % 2 == 0:
                        lst.remove(lst[i])
                    elif i == len(old) - 1:
                        lst.pop()
                    else:
                        lst.pop(i)
                else:
                    i = [k for k in range(len(old)) if old[k] != new[k]][0]
                    lst[i] = new[i]
            elif a == "SaveSend":
                d = self.config.save()
                d.addErrback(lambda f: None)
                self.sim.pump()
            elif a == "SaveAck":
                self.sim.release()
            elif a == "SaveReject":
                self.sim.release(b"552 Unrecognized option: Failing.\r\n")
            elif a == "OtherChange":
                changes = self.concrete(e["chs"])
                for lname, vals in changes:
                    self.sim.conf[lname] = vals
                self.evq.append(changes)
            elif a == "Deliver":
                changes = self.evq.pop(0)
                if changes != self.concrete(e["chs"]):
                    raise RuntimeError("harness: the script delivers %r but Tor's queue has %r" % (self.concrete(e["chs"]), changes))
                self.announce(changes)
            else:
                raise ValueError(a)
        except Exception:
            self.exc = True
            self.errors.append(failure.Failure().getTraceback())
        return self.obs()

    def obs(self):
        wrote = []
        for line in self.sim.log[self.nlog:]:
            if line.startswith("SETCONF"):
                wrote.append([[k.lower(), v] for k, v in parse_setconf(line)])     # Tor matches option names case-insensitively
        self.nlog = len(self.sim.log)
        view = dict((r, ["!noconfig"]) for r in self.opt)
        shape = dict((r, "bad:noconfig") for r in self.opt)
        pending = False
        if self.config is not None:
            pending = bool(self.config.needs_save())
            for r, (name, typ, conc) in self.opt.items():
                try:
                    v = getattr(self.config, name.upper() if r == "s1" else name)
                except Exception as ex:
                    view[r], shape[r] = ["!%r" % (ex,)], "bad:exception"
                    continue
                if r.startswith("l"):
                    view[r] = [str(x) for x in v] if isinstance(v, list) else ["!%r" % (v,)]
                    shape[r] = "ok" if isinstance(v, _ListWrapper) else "bad:%s" % type(v).__name__
                else:
                    view[r] = [wire_value(typ, v)]
                    shape[r] = "ok" if type(v) is PYTYPE[typ] else "bad:%s" % type(v).__name__
        return dict(wrote=wrote, view=view, shape=shape, pending=pending, exc=self.exc, skipview=list(self.skipview))


def replay(script, pick):
    run = Run(pick)
    steps = []
    for e in script:
        s = dict(e)
        s["obs"] = run.step(e)
        steps.append(s)
        if run.exc:
            break
    return dict(steps=steps, names=run.names(), conc=run.conc(), pick=pick, errors=run.errors[:2])


class _Sink(object):
    def __call__(self, ev):
        pass


log.startLoggingWithObserver(_Sink(), setStdout=False)
