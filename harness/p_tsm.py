"""C07 and C08: TorState's live view (spec/TorStateM*.tla)."""
import json
import random

import tlc
import common
import pipeline
import tsm

ASSUME = [
    "Tor's truth evolves by the actions in TorStateM (launch/extend/build/close/fail; new/sentconnect/remap/succeeded/detached/"
    "closed/failed); a stream changes circuit only through DETACHED; circuit and stream ids are re-used only after the previous "
    "holder is gone, no stream still references it and its close command (if any) was acknowledged",
    "the status snapshot is taken at a consistent moment (no stream reported on a circuit that is not reported)",
    "the fake Tor (SimTor) answers every command by command; GETINFO ip-to-country lookups issued on BUILT are answered 551; "
    "C07: a third of the random histories also contain waits, close requests and their (possibly refused) acknowledgements, as C08's do",
    "CLOSECIRCUIT / CLOSESTREAM are answered only at an explicit Ack step (or refused with a 552 at a Nack step) so that both orders of acknowledgement and event occur",
    "a stream's target / source are compared once Tor has reported them in a NEW / NEWRESOLVE / SUCCEEDED line (what the view records)",
    "streams may be remapped repeatedly (cache hit on NEW, the exit's answer after SENTCONNECT): the latest address is the truth; a stream "
    "reported FAILED may be reported CLOSED afterwards (for the view: an unknown id whose only event is terminal)",
    "circuits may be extended after BUILT (cannibalisation, with a purpose change) and become BUILT again",
    "build_timeout_circuit(): the timeout is a task.Clock of its own advanced at a BuildTimeout step; such requests appear in the "
    "TLC-generated behaviours (not in the Python-generated random histories)",
    "build_circuit(): EXTENDCIRCUIT is answered at an explicit Ack step; the circuit's LAUNCHED announcement may come before or after "
    "the answer (Tor flushes replies before events, both orders are explored); until the first event the circuit's status is a "
    "placeholder and is not compared; no other event concerns the circuit while the answer is outstanding, and build_circuit is "
    "called when no other command is in flight",
]


def rand_script(rng, n, user):
    """random legal history beyond the TLC bound, over 3 circuits / 3 streams / 3 relays"""
    tc, ts = {}, {}
    script = []
    pend = []           # close commands awaiting ack
    known_c, live_s = set(), set()
    listeners = set()
    waits = ["w1", "w2", "w3"]
    used = set()
    pre = rng.randint(0, 5)
    phase = "pre"
    tgt = {}
    while len(script) < n:
        if phase == "pre" and len(script) >= pre:
            if all(not (s["circ"] and s["circ"] not in tc) for s in ts.values()):
                script.append(dict(a="Snapshot"))
                phase = "live"
                known_c |= set(tc)
                live_s |= set(ts)
                continue
        r = rng.random()
        if user and phase == "live" and r < 0.25:
            k = rng.random()
            if user == "listen":
                k = 0.1 if len(listeners) < 2 else 2.0      # C07: application listeners only, no requests
            if k < 0.2 and len(listeners) < 2:
                l = rng.choice([x for x in ("l1", "l2") if x not in listeners])
                listeners.add(l)
                script.append(dict(a="AddListener", l=l))
            elif k < 0.4 and pend:
                # Tor answers the oldest close request; now and then it refuses it
                script.append(dict(a="Nack" if (pend[0][0] != "B" and rng.random() < 0.3) else "Ack"))
                done = pend.pop(0)
                if done[0] == "B":
                    if done[1] not in known_c or tc.get(done[1], {}).get("st") == "NEWBORN":
                        closing_c.discard(done[1])          # a new Circuit object for this id
                        failed_c[done[1]] = False
                    known_c.add(done[1])
            elif k < 1.0 and len(used) < 3:
                x = [w for w in waits if w not in used][0]
                kind = rng.choice(["WaitBuilt", "WaitClosed", "CloseC", "CloseS", "Build"])
                if kind == "Build":
                    free = [c for c in (1, 2, 3) if c not in tc and not any(st["circ"] == c for st in ts.values())]
                    if pend or not free:
                        continue
                    c = rng.choice(free)
                    tc[c] = dict(id=c, st="NEWBORN", path=[], pur=rng.choice(["GENERAL", "HS_CLIENT_REND"]), bf=rng.choice([1, 2]))
                    script.append(dict(a="Build", x=x, id=c, pur=tc[c]["pur"], bf=tc[c]["bf"]))
                    used.add(x)
                    pend.append(("B", c))
                elif kind == "CloseS":
                    if not ts:
                        continue
                    sid = rng.choice(sorted(ts))
                    if sid not in live_s:
                        continue
                    # (a close was already requested on this Stream object; a re-used id is a new object, even while
                    # the command for the previous one is still unanswered)
                    already = sid in closing_s
                    script.append(dict(a="CloseS", x=x, id=sid))
                    used.add(x)
                    if not already:
                        pend.append(("S", sid))
                        closing_s.add(sid)
                else:
                    if not known_c:
                        continue
                    cid = rng.choice(sorted(known_c))
                    if kind == "CloseC":
                        if failed_c.get(cid) or ("B", cid) in pend:
                            continue        # (while the build request is unanswered the user still holds the previous object)
                        script.append(dict(a="CloseC", x=x, id=cid))
                        used.add(x)
                        if cid in tc and cid not in closing_c:
                            pend.append(("C", cid))
                            closing_c.add(cid)
                    else:
                        script.append(dict(a=kind, x=x, id=cid))
                        used.add(x)
            continue
        # Tor steps
        choice = rng.random()
        cids, sids = [1, 2, 3], [1, 2, 3]
        if choice < 0.15:
            c = rng.choice(cids)
            if c in tc and tc[c]["st"] == "NEWBORN" and not any(p == ("C", c) for p in pend):
                tc[c] = dict(tc[c], st="LAUNCHED")          # Tor announces the circuit we asked for
                if ("B", c) in pend:
                    closing_c.discard(c)                    # the event creates the new Circuit object
                    failed_c[c] = False
                known_c.add(c)
                script.append(dict(a="Launch", ev=tc[c]))
                continue
            if c in tc or any(s["circ"] == c for s in ts.values()) or any(p == ("C", c) for p in pend):
                continue
            ev = dict(id=c, st="LAUNCHED", path=[], pur=rng.choice(["GENERAL", "HS_CLIENT_REND"]), bf=rng.choice([1, 2]))
            tc[c] = ev
            closing_c.discard(c)
            failed_c[c] = False
            script.append(dict(a="Launch", ev=ev))
            if phase == "live":
                known_c.add(c)
        elif choice < 0.35:
            cs = [c for c, e in tc.items() if e["st"] in ("LAUNCHED", "EXTENDED", "BUILT") and len(e["path"]) < 3 and ("B", c) not in pend]
            if not cs:
                continue
            c = rng.choice(cs)
            ev = dict(tc[c], st="EXTENDED", path=tc[c]["path"] + [rng.choice(["r1", "r2", "rX"])])
            if tc[c]["st"] == "BUILT":
                ev["pur"] = rng.choice(["GENERAL", "HS_CLIENT_REND"])      # a built circuit being cannibalised
            tc[c] = ev
            script.append(dict(a="Extend", ev=ev))
        elif choice < 0.45:
            cs = [c for c, e in tc.items() if e["st"] == "EXTENDED" and ("B", c) not in pend]
            if not cs:
                continue
            c = rng.choice(cs)
            tc[c] = dict(tc[c], st="BUILT")
            script.append(dict(a="Built", ev=tc[c]))
        elif choice < 0.52:
            gone = [c for c in sorted(tc) if tc[c]["st"] != "NEWBORN" and ("B", c) not in pend]
            if not gone:
                continue
            c = rng.choice(gone)
            ev = dict(tc[c], st="CLOSED" if tc[c]["st"] == "BUILT" else "FAILED")
            failed_c[c] = ev["st"] == "FAILED"
            del tc[c]
            closing_c.discard(c)
            script.append(dict(a="CircGone", ev=ev))
        elif choice < 0.65:
            s = rng.choice(sids)
            if s in zombie:
                script.append(dict(a="LateClosed", ev=dict(id=s, st="CLOSED", circ=0, tgt=zombie.pop(s), src="")))
                continue
            if s in ts:
                continue
            ev = dict(id=s, st=rng.choice(["NEW", "NEW", "NEWRESOLVE"]), circ=0,
                      tgt=rng.choice(["h1.example:80", "h2.example:443"]), src=rng.choice(["127.0.0.1:4001", "127.0.0.1:4002"]))
            ts[s] = ev
            taddr.pop(s, None)
            closing_s.discard(s)
            script.append(dict(a="StreamNew", ev=ev))
            if phase == "live":
                live_s.add(s)
        elif choice < 0.78:
            ss = [s for s, e in ts.items() if e["circ"] == 0 and e["st"] in ("NEW", "DETACHED", "REMAP")]
            cs = [c for c, e in tc.items() if e["st"] == "BUILT"]
            if not ss or not cs:
                continue
            s, c = rng.choice(ss), rng.choice(cs)
            ts[s] = dict(ts[s], st="SENTCONNECT", circ=c, src="")
            script.append(dict(a="SentConnect", ev=dict(ts[s])))
        elif choice < 0.83:
            ss = [s for s, e in ts.items() if e["st"] in ("NEW", "SENTCONNECT", "REMAP")]
            if not ss:
                continue
            s = rng.choice(ss)
            addr = rng.choice([a for a in ("10.9.8.7", "10.9.8.8") if a != taddr.get(s)])
            taddr[s] = addr
            ts[s] = dict(ts[s], st="REMAP", src="")
            script.append(dict(a="Remap", ev=dict(ts[s], tgt=addr)))
        elif choice < 0.89:
            ss = [s for s, e in ts.items() if e["st"] in ("SENTCONNECT", "REMAP") and e["circ"]]
            if not ss:
                continue
            s = rng.choice(ss)
            ts[s] = dict(ts[s], st="SUCCEEDED", src="")
            script.append(dict(a="Succeeded", ev=dict(ts[s])))
        elif choice < 0.94:
            ss = [s for s, e in ts.items() if e["circ"]]
            if not ss:
                continue
            s = rng.choice(ss)
            ev = dict(ts[s], st="DETACHED", src="")
            ts[s] = dict(ev, circ=0)
            script.append(dict(a="Detached", ev=ev))
        else:
            if not ts:
                continue
            s = rng.choice(sorted(ts))
            ev = dict(ts[s], st=rng.choice(["CLOSED", "FAILED"]), src="")
            del ts[s]
            live_s.discard(s)
            closing_s.discard(s)
            z = ev["st"] == "FAILED" and rng.random() < 0.6       # Tor will also report it CLOSED
            if z:
                zombie[s] = ev["tgt"]
            script.append(dict(a="StreamGone", z=z, ev=ev))
    return script


closing_c, closing_s, failed_c, taddr, zombie = set(), set(), {}, {}, {}


def strip(t):
    return [dict((k, v) for k, v in e.items() if k != "obs") for e in t["steps"]]


def run(pid, tier, seed):
    global closing_c, closing_s, failed_c, taddr, zombie
    rep = common.Report(pid, tier, seed)
    rep.assumptions = list(ASSUME)
    names = ["MC_%s_quick" % pid] if tier == "quick" else ["MC_%s_quick" % pid, "MC_%s_thorough" % pid]
    if pid == "C08":
        names.insert(1, "MC_C08_timed")          # build_timeout_circuit requests, one circuit
    for name in names:
        r = tlc.run_tlc("TorStateM_MC", "TorStateM_%s.cfg" % name, workers=16, timeout=150 if tier == "quick" else 1200)
        if r.timed_out and not r.invariant_violated:
            rep.cov["tlc_runs"].append(dict(name=name, generated=r.generated, distinct=r.distinct, depth=r.depth,
                                            wall_s=round(r.wall, 1), ok=True, complete=False))
            rep.cov["states"] += r.distinct
            rep.cov["transitions"] += r.generated
        else:
            rep.tlc(name, r)
    rng = random.Random(seed)
    num = 300 if tier == "quick" else 3000
    sims, out, wall = tlc.simulate("TorStateM_Gen", "TorStateM_Gen_%s.cfg" % pid, num, 50 if tier == "quick" else 70, seed, timeout=600)
    if not sims:
        rep.broken.append("TLC generated no behaviours:\n" + out[-800:])
    rep.cov["tlc_generated_behaviours"] = len(sims)
    scripts = [("tlc", h) for h in sims]
    for i in range(200 if tier == "quick" else 2500):
        closing_c, closing_s, failed_c, taddr, zombie = set(), set(), {}, {}, {}
        scripts.append(("random", rand_script(rng, rng.choice([30, 80, 200]) if tier == "quick" else rng.choice([50, 200, 600]),
                                              user=(True if (pid == "C08" or i % 3 == 2) else "listen" if i % 2 else False))))
    traces, seen = [], set()
    for k, (src, s) in enumerate(scripts):
        # in every third execution the first application listener is faulty: it fails in each stream notification
        t = tsm.replay(s, (1, 2, 3), (1, 2, 3), raiser=("l1" if k % 3 == 1 else None))
        t["src"] = src
        traces.append(t)
        acts = set(e["a"] for e in s)
        if (pid == "C07" and "SentConnect" in acts and ("CircGone" in acts or "Detached" in acts)) or \
           (pid == "C08" and acts & {"WaitBuilt", "WaitClosed", "CloseC", "CloseS", "AddListener", "Build"}):
            seen.add(common.digest(s))
    rep.cov["evaluations"] = len(traces)
    rep.cov["distinct_nontrivial"] = len(seen)
    rep.cov["rule"] = ("stimulus scripts over 3 circuits / 3 streams / 3 relays (one outside the consensus): TLC -simulate behaviours of "
                       "TorStateM_Gen_%s (pre-snapshot prefix, snapshot, events%s) plus seeded random histories of 30-600 steps with id "
                       "re-use and circuits closing under attached streams; each replayed into a real TorState over a real "
                       "TorControlProtocol; distinct by hash; non-trivial = %s"
                       % (pid, ", listeners / waits / close requests / acknowledgements" if pid == "C08" else "",
                          "a stream was attached and a circuit closed or a stream detached" if pid == "C07"
                          else "at least one listener / wait / close request"))
    res, runs = tlc.validate_parallel("TorStateMTrace", "TorStateMTrace.cfg", traces, nproc=14, chunk=100, timeout=3000)
    pipeline.selftest_from(rep, "TorStateMTrace", "TorStateMTrace.cfg", traces[:60], res[:60])
    for r in runs:
        rep.cov["states"] += r.distinct
        rep.cov["transitions"] += r.generated
    if len(res) != len(traces) or any(x["matched"] < 0 for x in res):
        rep.broken.append("trace validation produced no verdict:\n" + runs[0].out[-1500:])
    bad = [i for i, x in enumerate(res) if x["matched"] != x["wanted"]]
    if bad and not rep.broken:
        env, _ = tlc.validate_parallel("TorStateMTrace", "TorStateMTrace.cfg", [traces[i] for i in bad[:60]], nproc=6,
                                       extra_env={"VMODE": "env"})
        n = 0
        for i, e in zip(bad, env):
            x = res[i]
            if e["matched"] != e["wanted"] and e["matched"] <= x["matched"]:
                rep.broken.append("illegal stimulus (harness bug) in a %s script at step %d: %s" %
                                  (traces[i]["src"], e["matched"] + 1, json.dumps(strip(traces[i])[max(0, e["matched"] - 5):e["matched"] + 1])[:700]))
                continue
            if n < 5:
                k = x["matched"]
                st = traces[i]["steps"][k]
                rep.violation("real execution is not a behaviour of TorStateM: step %d %s of a %s script; observed %s"
                              % (k + 1, json.dumps(dict((a, b) for a, b in st.items() if a != "obs")), traces[i]["src"],
                                 json.dumps(st["obs"])[:700]),
                              dict(property=pid, module="TorStateM", script=strip(traces[i]), raiser=traces[i].get("raiser"), matched=k, failing_step=st,
                                   errors=traces[i]["errors"]))
                n += 1
        rep.cov["rejected_traces"] = len(bad)
    ok = [t for t, x in zip(traces, res) if x["matched"] == x["wanted"]]
    rep.cov["traces_validated_against_impl"] = len(ok)
    rep.cov["samples"] = [dict(steps=strip(t)[:14], final_obs=t["steps"][min(13, len(t["steps"]) - 1)]["obs"]) for t in ok[:1]]
    return rep.finish()


def replay(pid, path):
    p = json.load(open(path))
    t = tsm.replay(p["script"], (1, 2, 3), (1, 2, 3), raiser=p.get("raiser") or None)
    res, r = tlc.validate_traces("TorStateMTrace", "TorStateMTrace.cfg", [t])
    x = res[0]
    print("replay: matched %d of %d steps" % (x["matched"], x["wanted"]))
    if x["matched"] != x["wanted"]:
        print("VIOLATION property=%s replay=%s" % (pid, path))
        print("  step %d: %s" % (x["matched"] + 1, json.dumps(t["steps"][x["matched"]])[:600]))
        return 1
    return 0
