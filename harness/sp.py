"""C18: record how a SOCKS port is chosen / added, and the well-known-port fallback (vectors for SocksPortTrace.tla)."""
import os
import sys

REPO = os.environ.get("VERIF_REPO", "/repo")
sys.path.insert(0, REPO)

from twisted.internet import defer, error                      # noqa: E402
from twisted.internet.address import IPv4Address                # noqa: E402
from twisted.internet.endpoints import TCP4ClientEndpoint, UNIXClientEndpoint   # noqa: E402
from twisted.internet.protocol import Factory, Protocol         # noqa: E402
from twisted.python import failure, log                         # noqa: E402
from twisted.test import proto_helpers                          # noqa: E402

import txtorcon                                                  # noqa: E402
from txtorcon import TorControlProtocol, TorConfig               # noqa: E402
from txtorcon.endpoints import TorClientEndpoint                 # noqa: E402

import simtor                                                    # noqa: E402
import cfgh                                                      # noqa: E402  (SETCONF line parser)
import oa                                                        # noqa: E402  (PortReactor)

assert os.path.abspath(txtorcon.__file__).startswith(os.path.abspath(REPO)), txtorcon.__file__


def entry(line):
    first = line.split()[0]
    e = dict(line=line, first=first, kind="bad", host="", port=0, path="")
    if first.startswith("unix:"):
        e.update(kind="unix", path=first[5:])
    elif first == "0":
        e.update(kind="zero")
    elif ":" in first and "[" not in first:
        h, p = first.rsplit(":", 1)
        if p.isdigit():
            e.update(kind="hostport", host=h, port=int(p))
    elif first.isdigit():
        e.update(kind="tcp", host="127.0.0.1", port=int(first))
    return e


def ep_record(ep):
    if isinstance(ep, UNIXClientEndpoint):
        return dict(kind="unix", host="", port=0, path=ep._path)
    if isinstance(ep, TCP4ClientEndpoint):
        return dict(kind="tcp", host=ep._host, port=ep._port, path="")
    return dict(kind="?" + type(ep).__name__, host="", port=0, path="")


def choose(existing, requested, path, twice=False, overlap=False, pending=False):
    """existing: list of SOCKSPort lines Tor reports ([] with default='9050' means 'unset, default in force')"""
    lines = list(existing["lines"])
    proto = TorControlProtocol()
    tr = proto_helpers.StringTransport()
    sim = simtor.SimTor(proto, tr)
    sim.info.update({"config/names": ["SocksPort Dependent", "SocksPortLines Dependent", "__SocksPort Dependent", "ContactInfo String"],
                     "config/defaults": ["SocksPort 9050"] if existing.get("default") else [],
                     "onions/current": "", "onions/detached": ""})
    sim.conf["socksport"] = lines if lines else None
    sim.conf["__socksport"] = [existing["default"]] if existing.get("default") else None
    sets = []

    def setconf(line):
        sets.append([v for k, v in cfgh.parse_setconf(line) if k.lower() == "socksport"])
        return b"250 OK\r\n"
    sim.handlers["SETCONF"] = setconf
    if existing.get("lookupfails"):
        # the second step of the default lookup is refused (a Tor that does not know the __*Port options)
        def getconf(line):
            if line.split(" ", 1)[1].lower() == "__socksport":
                return b"552 Unrecognized configuration key \"__SocksPort\"\r\n"
            return None
        sim.handlers["GETCONF"] = getconf
    proto.makeConnection(tr)
    sim.pump()
    reactor = oa.PortReactor()
    fired = []
    first = []
    err = False
    try:
        if path == "tor_cfg":
            # a TorConfig is attached to the Tor object, and a SOCKSPort change saved through it was refused by
            # Tor: what Tor really listens on is what counts
            cd = TorConfig.from_protocol(proto)
            sim.pump()
            config = cd.result
            config.SocksPort = ["unix:/nonexistent/dir/socks"]
            refuse = [True]
            sim.handlers["SETCONF"] = lambda line: (b"552 Unrecognized option: refused\r\n" if refuse[0] else setconf(line))
            sd = config.save()
            sd.addErrback(lambda f: None)
            sim.pump()
            refuse[0] = False
            tor = txtorcon.Tor(reactor, proto, _tor_config=config)
            d = tor._default_socks_endpoint()
        elif path == "tor":
            tor = txtorcon.Tor(reactor, proto)
            from txtorcon.endpoints import _create_socks_endpoint

            def ask():
                if requested:
                    return _create_socks_endpoint(reactor, proto, socks_config=requested)
                return tor._default_socks_endpoint()
            if overlap:
                # two parts of the application ask at the same time: the second request is made before Tor has answered
                # anything of the first (only done where a configured port serves the request)
                ask().addBoth(first.append)
            d = ask()
        elif path == "cfgsync":
            # the synchronous form: an already configured port only
            cd = TorConfig.from_protocol(proto)
            sim.pump()
            config = cd.result
            d = defer.maybeDeferred(config.socks_endpoint, reactor, requested)
        else:
            cd = TorConfig.from_protocol(proto)
            sim.pump()
            config = cd.result
            if pending:
                # the application has edited an unrelated option and not saved it (yet)
                config.ContactInfo = "someone@example.com"
            d = config.create_socks_endpoint(reactor, requested)
            if twice:
                # the application asks for the same port again later (it is there by now, whatever it took the first time)
                d.addErrback(lambda f: None)
                sim.pump()
                d = config.create_socks_endpoint(reactor, requested)
        d.addBoth(fired.append)
        sim.pump()
    except Exception:
        err = True
    ep = None
    if fired and not isinstance(fired[0], failure.Failure):
        ep = fired[0]
    else:
        err = True
    if overlap and (not first or isinstance(first[0], failure.Failure) or ep is None or ep_record(first[0]) != ep_record(ep)):
        err = True          # (the two requests are the same: so are their answers)
    newport = reactor.given[0][0] if reactor.given else 0
    eff = lines if lines else ([existing["default"]] if existing.get("default") else [])
    v = dict(part="a", path=path, twice=bool(twice), overlap=bool(overlap), pending=bool(pending), reqfirst=(requested.split()[0] if requested else ""), lookupfails=bool(existing.get("lookupfails")), existing=[entry(l) for l in eff], requested=requested or "",
             reqep=ep_record_from_text(requested) if requested else dict(kind="", host="", port=0, path=""),
             obs=dict(setconf=sets[0] if sets else [], nset=len(sets), ep=ep_record(ep) if ep is not None else dict(kind="none", host="", port=0, path=""),
                      newport=newport, newtext=str(newport), err=err))
    if not lines and existing.get("default"):
        # the default is in force but not an explicit line: nothing to re-list
        v["implicit_default"] = True
    return v


def chain(existing):
    """TorConfig.create_socks_endpoint after a history on the same TorConfig: a new port was requested and added, and,
    back to back with it, another one that Tor refused; Tor announces what it accepted (CONF_CHANGED before the 250 OK,
    as it does).  The request under test is a third, new port: Tor's listeners at that time are the existing ones."""
    lines = list(existing["lines"])
    proto = TorControlProtocol()
    tr = proto_helpers.StringTransport()
    sim = simtor.SimTor(proto, tr)
    sim.info.update({"config/names": ["SocksPort Dependent", "SocksPortLines Dependent", "__SocksPort Dependent"],
                     "config/defaults": ["SocksPort 9050"], "onions/current": "", "onions/detached": ""})
    store = list(lines)
    sim.conf["socksport"] = store if store else None
    sim.conf["__socksport"] = ["9050"]
    sets = []

    def setconf(line):
        vals = [v for k, v in cfgh.parse_setconf(line) if k.lower() == "socksport"]
        sets.append(vals)
        if any(v.startswith("unix:/nonexistent") for v in vals):
            return b"552 Unacceptable option value: Failed to bind one of the listener ports.\r\n"
        store[:] = vals
        sim.conf["socksport"] = list(store)
        ev = "650-CONF_CHANGED\r\n" + "".join("650-SocksPort=%s\r\n" % v for v in vals) + "650 OK\r\n"
        return ev.encode() + b"250 OK\r\n"
    sim.handlers["SETCONF"] = setconf
    proto.makeConnection(tr)
    sim.pump()
    reactor = oa.PortReactor()
    cd = TorConfig.from_protocol(proto)
    sim.pump()
    config = cd.result
    fired, err = [], False
    try:
        d1 = config.create_socks_endpoint(reactor, "9061")
        d2 = config.create_socks_endpoint(reactor, "unix:/nonexistent/dir/socks")
        d1.addErrback(lambda f: None)
        d2.addErrback(lambda f: None)
        sim.pump()
        before = list(store)
        nprior = len(sets)
        d = config.create_socks_endpoint(reactor, "9062")
        d.addBoth(fired.append)
        sim.pump()
    except Exception:
        err = True
        before, nprior = list(store), len(sets)
    ep = None
    if fired and not isinstance(fired[0], failure.Failure):
        ep = fired[0]
    else:
        err = True
    mine = sets[nprior:]
    return dict(part="a", path="config", twice=False, chain=True, base=lines, reqfirst="9062", lookupfails=False,
                existing=[entry(l) for l in before], requested="9062", reqep=ep_record_from_text("9062"),
                obs=dict(setconf=mine[0] if mine else [], nset=len(mine),
                         ep=ep_record(ep) if ep is not None else dict(kind="none", host="", port=0, path=""),
                         newport=0, newtext="0", err=err))


def midboot(existing):
    """TorConfig.create_socks_endpoint on a TorConfig during whose bootstrap - after it had read SocksPort - another
    controller added a SOCKS listener, which Tor announced at once.  The request under test is a new port: Tor's
    listeners at that time are the existing ones."""
    lines = list(existing["lines"])
    proto = TorControlProtocol()
    tr = proto_helpers.StringTransport()
    sim = simtor.SimTor(proto, tr)
    sim.info.update({"config/names": ["SocksPort Dependent", "SocksPortLines Dependent", "__SocksPort Dependent", "Nickname String"],
                     "config/defaults": ["SocksPort 9050", "Nickname Unnamed"], "onions/current": "", "onions/detached": ""})
    store = list(lines)
    sim.conf["socksport"] = list(store)
    sim.conf["__socksport"] = ["9050"]
    sets = []

    def setconf(line):
        vals = [v for k, v in cfgh.parse_setconf(line) if k.lower() == "socksport"]
        sets.append(vals)
        store[:] = vals
        return b"250 OK\r\n"
    sim.handlers["SETCONF"] = setconf
    state = dict(asked=False, done=False)
    orig_answer = sim.answer

    def answer(line):
        if state["asked"] and not state["done"]:
            state["done"] = True
            store.append("9999")
            sim.conf["socksport"] = list(store)
            ev = "650-CONF_CHANGED\r\n" + "".join("650-SocksPort=%s\r\n" % v for v in store) + "650 OK\r\n"
            proto.dataReceived(ev.encode("latin-1"))
        if line.upper().startswith("GETCONF ") and line.split(" ", 1)[1].lower() == "socksport":
            state["asked"] = True
        return orig_answer(line)
    sim.answer = answer
    proto.makeConnection(tr)
    sim.pump()
    reactor = oa.PortReactor()
    cd = TorConfig.from_protocol(proto)
    sim.pump()
    fired, err = [], False
    before = list(store)
    try:
        config = cd.result
        d = config.create_socks_endpoint(reactor, "8888")
        d.addBoth(fired.append)
        sim.pump()
    except Exception:
        err = True
    ep = None
    if fired and not isinstance(fired[0], failure.Failure):
        ep = fired[0]
    else:
        err = True
    return dict(part="a", path="config", twice=False, midboot=True, base=lines, reqfirst="8888", lookupfails=False,
                existing=[entry(l) for l in before], requested="8888", reqep=ep_record_from_text("8888"),
                obs=dict(setconf=sets[0] if sets else [], nset=len(sets),
                         ep=ep_record(ep) if ep is not None else dict(kind="none", host="", port=0, path=""),
                         newport=0, newtext="0", err=err))


def ep_record_from_text(text):
    e = entry(text)
    return dict(kind="unix" if e["kind"] == "unix" else "tcp", host=e["host"], port=e["port"], path=e["path"])


class Tagged(error.ConnectError):
    pass


def _connect_once(ep, reactor, outcomes):
    """one connect() on the endpoint; outcomes per attempted well-known port"""
    base = len(reactor.tcpClients)
    fired = []
    d = ep.connect(Factory.forProtocol(Protocol))
    d.addBoth(fired.append)
    tried = []
    for i, out in enumerate(outcomes):
        if len(reactor.tcpClients) - base <= i:
            break
        host, port, factory, timeout, bind = reactor.tcpClients[base + i]
        tried.append(port)
        connector = reactor.connectors[base + i] if hasattr(reactor, "connectors") and len(reactor.connectors) > base + i else None
        if out == "connerr":
            factory.clientConnectionFailed(connector, failure.Failure(Tagged("attempt %d" % (i + 1))))
        elif out == "other":
            factory.clientConnectionFailed(connector, failure.Failure(ValueError("attempt %d" % (i + 1))))
        else:
            p = factory.buildProtocol(IPv4Address("TCP", host, port))
            tr = proto_helpers.StringTransport()
            p.makeConnection(tr)
            if out == "hangup":
                # the TCP connection was made; Tor hangs up during the SOCKS negotiation
                p.connectionLost(failure.Failure(error.ConnectionDone("attempt %d" % (i + 1))))
            else:
                p.dataReceived(b"\x05\x00")
                if out == "socksfail":
                    # the TCP connection was made; the SOCKS request is refused (host unreachable)
                    p.dataReceived(b"\x05\x04\x00\x01\x00\x00\x00\x00\x00\x00")
                    p.connectionLost(failure.Failure(error.ConnectionDone()))
                else:
                    p.dataReceived(b"\x05\x00\x00\x01\x01\x02\x03\x04\x00\x50")
        if fired:
            break
    for extra in reactor.tcpClients[base + len(tried):]:
        tried.append(extra[1])
    result, which = "pending", 0
    if fired:
        v = fired[0]
        if isinstance(v, failure.Failure):
            result = "connerr" if v.check(error.ConnectError) else "other"
            msg = str(v.value)
            import re
            mm = re.search(r"attempt (\d+)", msg)
            which = int(mm.group(1)) if mm else 0
            if not mm and type(v.value).__name__ == "HostUnreachableError":
                # a SOCKS-level refusal carries no tag: it belongs to the attempt that got a SOCKS reply
                which = 1 + [i for i, o in enumerate(outcomes) if o == "socksfail"][0] if "socksfail" in outcomes else 0
        else:
            result = "ok"
            which = len(tried)
    return dict(tried=tried, result=result, which=which)


def fallback(outcomes, prior=None):
    """TorClientEndpoint without a SOCKS endpoint: outcomes per well-known port.  prior: the outcomes an earlier
    connect() on the same endpoint object met (what listens where may have changed since)"""
    reactor = proto_helpers.MemoryReactorClock()
    ep = TorClientEndpoint("www.example.com", 80, reactor=reactor)
    if prior is not None:
        _connect_once(ep, reactor, prior)
    obs = _connect_once(ep, reactor, outcomes)
    return dict(part="b", outcomes=list(outcomes), prior=list(prior or []), obs=obs)


class _Sink(object):
    def __call__(self, ev):
        pass


log.startLoggingWithObserver(_Sink(), setStdout=False)
