"""Replay ControlConn stimulus scripts into the real TorControlProtocol and
record, after every step, the projection the trace specification compares
with the model (see spec/ControlConnTrace.tla).

Nothing in /repo is patched: the recorder wraps the instance's public
queue_command / lineReceived and reads the StringTransport.
"""
import os
import random
import sys

REPO = os.environ.get("VERIF_REPO", "/repo")
sys.path.insert(0, REPO)

from twisted.internet import defer, error            # noqa: E402
from twisted.python import failure, log              # noqa: E402
from twisted.test import proto_helpers               # noqa: E402

import txtorcon                                       # noqa: E402
from txtorcon.torcontrolprotocol import TorControlProtocol, TorProtocolError, TorDisconnectError  # noqa: E402

assert os.path.abspath(txtorcon.__file__).startswith(os.path.abspath(REPO)), txtorcon.__file__

EVNAMES = ["EVA", "EVB"]
CODES = {"2": "250", "5": "552", "6": "650"}

DATA_KINDS = ("d", "dS", "dE", "dM", "dP", "dK", "dL")
LONG = "L" * 17000       # longer than Twisted's default line limit (16384); the protocol raises it to Tor's 1 MiB


def render(kind, cls, n, name):
    """wire text (no CRLF) and the text piece the client should hand on"""
    code = CODES[cls]
    nm = (name + " ") if name else ""
    if kind == "s":
        return "%s %st%d" % (code, nm, n), "t%d" % n
    if kind == "sOK":
        return "%s OK" % code, "OK"
    if kind == "sB":
        return "%s %s" % (code, name), None
    if kind == "m":
        return "%s-%st%d" % (code, nm, n), "t%d" % n
    if kind == "mB":
        return "%s-%s" % (code, name), None
    if kind == "p":
        return "%s+%st%d" % (code, nm, n), "t%d" % n
    if kind == "pB":
        return "%s+%s" % (code, name), None
    if kind == ".":
        return ".", None
    if kind == "d0":
        return "", ""            # an empty data line: part of the payload like any other line
    if kind == "dL":
        return "t%d %s" % (n, LONG), "t%d %s" % (n, LONG)
    txt = {"d": "t%d", "dS": "250 t%d", "dE": "650 EVA t%d", "dM": "250-t%d", "dP": "250+t%d",
           "dK": "k%d=v"}[kind] % n
    return txt, txt


class Run(object):
    """One execution of the real protocol."""

    def __init__(self, seg=("whole",), rng=None, wrap=True, late_attach=False, wire=None):
        self.wrap = wrap
        # the names the two event kinds have on the wire (the model's EVA / EVB by default; a pair of Tor's own names where
        # one is the beginning of the other, e.g. STREAM / STREAM_BW)
        self.wire = dict(wire or {"EVA": "EVA", "EVB": "EVB"})
        self.late_attach = late_attach
        self.unattached = []
        self.defs = {}
        self.seg = seg
        self.rng = rng or random.Random(0)
        self.proto = TorControlProtocol()
        self.tr = proto_helpers.StringTransportWithDisconnection()      # loseConnection() reports the loss at once
        self.tr.protocol = self.proto
        self.cmds = []          # per serial: dict(text, written)
        self.res = []           # per serial: outcome record
        self.cbnow = []
        self.dlnow = []
        self.dn = []
        self.exc = False
        self.tokmap = {"OK": 0, "": -2}
        self.nline = 0
        self.pending = []       # [(bytes, kind)] lines begun, not yet completely delivered
        self.partial = b""      # bytes of pending[0] already delivered
        self.snaps = []         # snapshots taken inside lineReceived
        self.lost = False
        self.errors = []
        self.next_kind = None
        self._bootstrap()

    # -- set-up ---------------------------------------------------------
    def _bootstrap(self):
        p, tr = self.proto, self.tr
        p.makeConnection(tr)
        script = [
            (b"PROTOCOLINFO 1", b"250-PROTOCOLINFO 1\r\n250-AUTH METHODS=NULL\r\n250-VERSION Tor=\"0.4.8.0\"\r\n250 OK\r\n"),
            (b"AUTHENTICATE", b"250 OK\r\n"),
            (b"GETINFO signal/names", b"250-signal/names=RELOAD HUP SHUTDOWN NEWNYM\r\n250 OK\r\n"),
            (b"GETINFO version", b"250-version=0.4.8.0\r\n250 OK\r\n"),
            (b"GETINFO events/names", b"250-events/names=" + " ".join(self.wire[n] for n in EVNAMES).encode() + b"\r\n250 OK\r\n"),
            (b"USEFEATURE EXTENDED_EVENTS", b"250 OK\r\n"),
        ]
        for want, reply in script:
            got = tr.value()
            tr.clear()
            assert got == want + b"\r\n", (got, want)
            p.dataReceived(reply)
        assert p.post_bootstrap.called
        assert tr.value() == b""
        if not self.wrap:
            return
        # recorder: wrap the public boundaries on the instance
        orig_q = p.queue_command
        run = self

        def queue_command(cmd, arg=None):
            serial = len(run.cmds) + 1
            text = cmd if isinstance(cmd, bytes) else cmd.encode("utf-8")
            run.cmds.append(dict(text=text, written=False, kind=run.next_kind))
            run.next_kind = None
            run.res.append(dict(k="p", cls="", toks=[]))
            kind = run.cmds[-1]["kind"]
            try:
                d = orig_q(cmd, arg)
            except Exception:
                run.cmds.pop()          # refused at submission: never a command
                run.res.pop()
                raise
            run.defs[serial] = d
            if run.late_attach and kind in (None, "plain") and arg is None:
                # the caller submits first and looks at the outcome later (attaches its callbacks after the reply is in)
                run.unattached.append((d, serial))
            else:
                d.addCallbacks(run._ok, run._err, callbackArgs=(serial,), errbackArgs=(serial,))
            return d
        p.queue_command = queue_command
        orig_lr = p.lineReceived

        def lineReceived(line):
            try:
                orig_lr(line)
            except Exception:
                run.exc = True
                run.errors.append(failure.Failure().getTraceback())
            run.snaps.append(run.snapshot(attach=True))
        p.lineReceived = lineReceived

    # -- recording ---------------------------------------------------------
    def toks(self, text):
        if text == "":
            return []
        return [self.tokmap.get(piece, -9) for piece in text.split("\n")]

    def _fired(self, serial, rec):
        if self.res[serial - 1]["k"] != "p":
            self.exc = True
            self.errors.append("command %d resolved twice" % serial)
        self.res[serial - 1] = rec

    def _ok(self, value, serial):
        if not isinstance(value, str):
            self._fired(serial, dict(k="ok", cls="2", toks=[-8]))
        else:
            self._fired(serial, dict(k="ok", cls="2", toks=self.toks(value)))
        if self.cmds[serial - 1].get("kind") == "chain":
            # the user's success callback submits a follow-up command
            self.proto.queue_command("GETINFO c%d" % serial)
        if self.cmds[serial - 1].get("kind") == "closer" and not self.lost:
            # the user's success callback drops the connection; the in-memory transport reports it synchronously
            self.lost = True
            self.pending = []
            self.partial = b""
            self.tr.loseConnection()
        return None

    def _err(self, f, serial):
        if f.check(TorProtocolError) and not f.check(TorDisconnectError):
            self._fired(serial, dict(k="err", cls=str(f.value.code)[:1], toks=self.toks(f.value.text)))
        elif f.check(TorDisconnectError):
            self._fired(serial, dict(k="disc", cls="", toks=[]))
        elif f.check(defer.CancelledError):
            self._fired(serial, dict(k="gone", cls="", toks=[]))      # the caller gave up on it
        else:
            self._fired(serial, dict(k="other", cls="", toks=[]))
            self.errors.append(f.getTraceback())
        if self.cmds[serial - 1].get("kind") == "retry":
            # the user's errback retries
            self.proto.queue_command("GETINFO r%d" % serial)
        return None

    def snapshot(self, attach=False):
        if attach:
            # (after a line has been processed: a reply that this line completed was resolved with nobody attached yet)
            for d, serial in self.unattached:
                d.addCallbacks(self._ok, self._err, callbackArgs=(serial,), errbackArgs=(serial,))
            self.unattached = []
        data = self.tr.value()
        self.tr.clear()
        wrote = []
        while data:
            # a command whose own text spans several lines (a "+" command given complete with the line that ends it): it is
            # written verbatim, followed by CR LF like any other
            multi = [c for c in self.cmds if not c["written"] and b"\r\n" in c["text"] and data.startswith(c["text"] + b"\r\n")]
            if multi:
                multi[0]["written"] = True
                data = data[len(multi[0]["text"]) + 2:]
                wrote.append([self.cmds.index(multi[0]) + 1, []])
                continue
            i = data.find(b"\r\n")
            if i < 0:
                wrote.append([-1, []])
                break
            text, data = data[:i], data[i + 2:]
            sid = -1
            for n, c in enumerate(self.cmds):
                if not c["written"] and c["text"] == text:
                    sid = n + 1
                    c["written"] = True
                    break
            names = []
            if text.startswith(b"SETEVENTS"):
                inv = dict((v, k) for k, v in self.wire.items())
                names = sorted(inv.get(x, x) for x in text.decode().split()[1:])
            wrote.append([sid, names])
        for f in self._flush():
            pass
        snap = dict(wrote=wrote, res=[dict(r) for r in self.res], cb=self.cbnow, dl=self.dlnow,
                    dn=list(self.dn), exc=self.exc)
        self.cbnow = []
        self.dlnow = []
        return snap

    def _flush(self):
        return []

    # -- listeners ---------------------------------------------------------
    def listener(self, lname, evname):
        key = (lname, evname)
        if not hasattr(self, "_ls"):
            self._ls = {}
        if key in self._ls:
            return self._ls[key]
        run = self
        wname = self.wire.get(evname, evname)

        def cb(data):
            run.dlnow.append([lname, run.toks(data)])
            if lname == "raise":
                raise RuntimeError("listener raises")
            if lname == "self":
                # a one-shot listener: unsubscribes itself whenever it is called, registered or not (if a peer
                # has just unsubscribed it, the second removal is an error inside this listener)
                run.proto.remove_event_listener(wname, cb)
            if lname == "other":
                victim = run.listener("ok2", evname)
                if victim in run.proto.events.get(wname, _NoCbs).callbacks:
                    run.proto.remove_event_listener(wname, victim)
            if lname == "killer":
                victim = run.listener("self", evname)
                if victim in run.proto.events.get(wname, _NoCbs).callbacks:
                    run.proto.remove_event_listener(wname, victim)
            if lname == "adder":
                late = run.listener("late", evname)
                if late not in run.proto.events.get(wname, _NoCbs).callbacks:
                    run.proto.add_event_listener(wname, late)
        self._ls[key] = cb
        return cb

    def when_disc(self, kind):
        """ask to be told about disconnection; the callback may ask again or submit a command"""
        idx = len(self.dn)
        self.dn.append(0)
        d = self.proto.when_disconnected()

        def fired(_, idx=idx):
            self.dn[idx] += 1
            if kind == "again":
                self.when_disc("plain")
            elif kind == "submit":
                self.proto.queue_command("GETINFO d%d" % idx)
            return None
        d.addBoth(fired)

    # -- stimulus ---------------------------------------------------------
    def deliver(self, data):
        if not data:
            return
        try:
            self.proto.dataReceived(data)
        except Exception:
            self.exc = True
            self.errors.append(failure.Failure().getTraceback())

    def step(self, e, lookahead=()):
        """execute one stimulus step, return the observation"""
        a = e["a"]
        p = self.proto
        try:
            if a == "Submit" and e["k"] == "na":
                # a command with a character outside ASCII: the protocol may refuse it on the spot (then it was never
                # submitted) or accept it (then it is a command like any other); which of the two is recorded
                serial = len(self.cmds) + 1
                try:
                    self.next_kind = "plain"
                    p.queue_command(u"GETINFO k%d-\u00e9" % serial)
                    e["acc"] = True
                except UnicodeError:
                    self.next_kind = None
                    e["acc"] = False
            elif a == "Submit":
                serial = len(self.cmds) + 1
                text = "GETINFO k%d" % serial
                if e["k"] == "plain" and serial % 5 == 3:
                    # a multi-line command, handed over complete with the line that ends it
                    text = "+LOADCONF\r\nSocksPort %d\r\nLog notice stdout\r\n.\r\n" % (9000 + serial)
                if e["k"] == "cb":
                    ret = e.get("ret", "none")

                    def linecb(line, serial=serial, ret=ret):
                        self.cbnow.append([serial, self.tokmap.get(line, -9)])
                        # what the application's callback returns is its own business and must not matter
                        return {"none": None, "one": 1, "zero": 0, "defer": defer.Deferred(), "text": "RECV"}[ret]
                    p.queue_command(text, linecb)
                else:
                    self.next_kind = e["k"]
                    p.queue_command(text)
            elif a == "GiveUp":
                # (a caller that had not looked at the outcome yet does so as it gives up)
                for d, serial in [x for x in self.unattached if x[1] == e["c"]]:
                    d.addCallbacks(self._ok, self._err, callbackArgs=(serial,), errbackArgs=(serial,))
                self.unattached = [x for x in self.unattached if x[1] != e["c"]]
                self.defs[e["c"]].cancel()
            elif a == "AddL":
                p.add_event_listener(self.wire[e["n"]], self.listener(e["l"], e["n"]))
            elif a == "RemL":
                p.remove_event_listener(self.wire[e["n"]], self.listener(e["l"], e["n"]))
            elif a == "WhenDisc":
                self.when_disc(e.get("k", "plain"))
            elif a in ("BeginReply", "BeginEvent"):
                cls = e["cls"] if a == "BeginReply" else "6"
                name = e.get("n", "") if a == "BeginEvent" else ""
                for i, kind in enumerate(e["sh"]):
                    self.nline += 1
                    wire, piece = render(kind, cls, self.nline, self.wire.get(name, name) if i == 0 else "")
                    if piece is not None and kind not in ("sOK", "d0"):
                        self.tokmap[piece] = self.nline
                    self.pending.append(wire.encode("ascii") + b"\r\n")
                if self.seg[0] == "early":
                    # part of the first line arrives right away
                    first = self.pending[0]
                    k = max(1, len(first) // 2)
                    self.deliver(first[:k])
                    self.partial = first[:k]
            elif a == "Line":
                return self._line(lookahead)
            elif a == "Lose":
                if self.pending and e.get("cut") is not None:
                    line = self.pending[0][len(self.partial):]
                    k = e["cut"] % max(1, len(line))
                    self.deliver(line[:k])
                reason = failure.Failure(error.ConnectionDone() if e.get("clean", True)
                                         else error.ConnectionLost("unclean"))
                self.pending = []
                self.partial = b""
                self.lost = True
                if e.get("local"):
                    # we hung up ourselves (transport.loseConnection()): the transport says so from then on
                    self.tr.disconnecting = True
                p.connectionLost(reason)
            else:
                raise ValueError(a)
        except Exception:
            self.exc = True
            self.errors.append(failure.Failure().getTraceback())
        # (a caller that looks at the outcome late does so at the latest once the connection is gone, or - when it
        # submits after the loss - right away)
        return self.snapshot(attach=(a == "Lose" or self.lost))

    def _line(self, lookahead):
        """deliver (the rest of) the next pending line according to the
        segmentation policy; the observation is the snapshot taken right
        after lineReceived returned for that line"""
        if self.snaps:
            # already delivered as part of a coalesced run
            return self.snaps.pop(0)
        if not self.pending:
            self.exc = True
            return self.snapshot()
        line = self.pending.pop(0)
        rest = line[len(self.partial):]
        self.partial = b""
        mode = self.seg[0]
        if mode == "whole":
            self.deliver(rest)
        elif mode == "bytes":
            for i in range(len(rest)):
                self.deliver(rest[i:i + 1])
        elif mode == "cut":
            k = self.seg[1] % len(rest) if len(rest) > 1 else 0
            if k:
                self.deliver(rest[:k])
            self.deliver(rest[k:])
        elif mode == "crlf":
            self.deliver(rest[:-1])
            self.deliver(rest[-1:])
        elif mode == "rand":
            i = 0
            while i < len(rest):
                k = self.rng.randint(1, len(rest) - i)
                self.deliver(rest[i:i + k])
                i += k
        elif mode == "early":
            nxt = b""
            if self.pending:
                k = max(1, len(self.pending[0]) // 2)
                nxt = self.pending[0][:k]
            self.deliver(rest + nxt)
            self.partial = nxt
        elif mode == "run":
            # coalesce the maximal run of consecutive Line steps into one segment
            n = 0
            for x in lookahead:
                if x["a"] == "Line" and n < len(self.pending):
                    n += 1
                else:
                    break
            chunk = rest + b"".join(self.pending[:n])
            del self.pending[:n]
            self.deliver(chunk)
        else:
            raise ValueError(mode)
        if not self.snaps:
            # lineReceived was never called for this line
            self.exc = True
            self.errors.append("no lineReceived for a complete line")
            return self.snapshot()
        if mode == "early" and len(self.snaps) > 1:
            self.exc = True
        return self.snaps.pop(0)


class _NoCbsT(object):
    callbacks = ()


_NoCbs = _NoCbsT()


class _Sink(object):
    """swallow Twisted log output (listener exceptions are logged by the
    code under test and are expected)"""
    def __call__(self, ev):
        pass


def replay(script, seg=("whole",), rng=None, late_attach=False, wire=None):
    """run a whole stimulus script; returns the trace (steps with obs)"""
    run = Run(seg, rng, late_attach=late_attach, wire=wire)
    steps = []
    for i, e in enumerate(script):
        obs = run.step(e, script[i + 1:])
        s = dict(e)
        s["obs"] = obs
        steps.append(s)
    return dict(steps=steps, seg=list(seg), late=bool(late_attach), wire=run.wire, errors=run.errors[:3])


# ---------------------------------------------------------------------------
# random stimulus beyond the exhaustive bound (same alphabet as the model)
REPLY_SHAPES = [("2", ["sOK"]), ("2", ["s"]), ("2", ["m", "s"]), ("2", ["m", "m", "sOK"]),
                ("2", ["p", "d", ".", "sOK"]), ("2", ["p", ".", "s"]),
                ("2", ["m", "p", "dS", "dE", ".", "m", "sOK"]), ("2", ["p", "dM", "dP", "dK", "d", ".", "sOK"]),
                ("2", ["p", "d", ".", "p", "dS", ".", "sOK"]), ("2", ["p", "d0", "d", "d0", ".", "sOK"]),
                ("2", ["p", "dL", "d", ".", "sOK"]),
                ("5", ["s"]), ("5", ["m", "s"]), ("5", ["m", "m", "s"])]
EVENT_SHAPES = [["s"], ["sB"], ["m", "sOK"], ["mB", "m", "sOK"], ["m", "m", "m", "sOK"], ["p", "d0", "d", "d0", ".", "sOK"],
                ["p", "d0", ".", "sOK"],
                ["p", "d", ".", "sOK"], ["pB", "dM", "d", ".", "sOK"], ["pB", "dS", "dE", "dK", ".", "sOK"],
                ["m", "p", "d", ".", "sOK"], ["p", "dL", ".", "sOK"]]
LISTENERS = ["ok1", "ok2", "self", "other", "raise", "adder", "late", "killer"]


def random_script(rng, length, lose=True, events=True):
    """a legal environment history (tracks only what legality needs)"""
    script = []
    kinds = []        # every command queued so far, in queue order
    replies = 0
    pending = 0
    cur = curname = curcls = None
    reg = dict((n, []) for n in EVNAMES)
    lost = False
    post = 0
    while len(script) < length:
        if lost:
            if post >= 6:
                break
            post += 1
            if rng.random() < 0.6:
                script.append(dict(a="Submit", k=rng.choice(["plain", "cb", "retry", "chain"])))
            else:
                script.append(dict(a="WhenDisc", k=rng.choice(["plain", "again", "submit"])))
            continue
        if pending and rng.random() < 0.7:
            script.append(dict(a="Line"))
            pending -= 1
            if pending == 0 and cur == "reply":
                k = kinds[replies]
                replies += 1
                if (k == "chain" and curcls == "2") or (k == "retry" and curcls == "5"):
                    kinds.append("plain")
                if k == "closer" and curcls == "2":
                    lost = True          # its success callback dropped the connection
            if pending == 0 and cur == "event":
                # listener behaviours change registrations
                for l in list(reg[curname]):
                    if l not in reg[curname]:
                        continue
                    if l == "self":
                        reg[curname].remove(l)
                        if not reg[curname]:
                            kinds.append("se")
                    elif l == "other" and "ok2" in reg[curname]:
                        reg[curname].remove("ok2")
                        if not reg[curname]:
                            kinds.append("se")
                    elif l == "adder" and "late" not in reg[curname]:
                        reg[curname].append("late")
                    elif l == "killer" and "self" in reg[curname]:
                        reg[curname].remove("self")
                        if not reg[curname]:
                            kinds.append("se")
            continue
        r = rng.random()
        if r < 0.30:
            k = rng.choice(["plain", "cb", "plain", "cb", "retry", "chain"] + (["closer"] if lose else []))
            script.append(dict(a="Submit", k=k))
            kinds.append(k)
        elif r < 0.45 and events:
            n = rng.choice(EVNAMES)
            l = rng.choice(LISTENERS)
            if l in reg[n]:
                script.append(dict(a="RemL", l=l, n=n))
                reg[n].remove(l)
                if not reg[n]:
                    kinds.append("se")
            else:
                script.append(dict(a="AddL", l=l, n=n))
                if not reg[n]:
                    kinds.append("se")
                reg[n].append(l)
        elif r < 0.50:
            script.append(dict(a="WhenDisc", k=rng.choice(["plain", "again", "submit"])))
        elif r < 0.75 and not pending and len(kinds) > replies:
            curcls, sh = rng.choice(REPLY_SHAPES)
            script.append(dict(a="BeginReply", cls=curcls, sh=list(sh)))
            pending = len(sh)
            cur = "reply"
        elif r < 0.97 and not pending and events:
            sh = rng.choice(EVENT_SHAPES)
            curname = rng.choice(EVNAMES)
            script.append(dict(a="BeginEvent", n=curname, sh=list(sh)))
            pending = len(sh)
            cur = "event"
        elif lose and r >= 0.985:
            e = dict(a="Lose", clean=rng.random() < 0.5, local=rng.random() < 0.4)
            if pending and rng.random() < 0.7:
                e["cut"] = rng.randint(0, 30)
            script.append(e)
            lost = True
            pending = 0
    return script


log.startLoggingWithObserver(_Sink(), setStdout=False)
