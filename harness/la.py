"""C19: replay Launch behaviours into the real txtorcon.launch() / TorProcessProtocol with a fake reactor
(spawnProcess, clock), a scripted control connection and real data directories."""
import os
import shutil
import sys
import tempfile

REPO = os.environ.get("VERIF_REPO", "/repo")
sys.path.insert(0, REPO)

from twisted.internet import defer, error                       # noqa: E402
from twisted.internet.interfaces import IReactorProcess          # noqa: E402
from twisted.python import failure, log                          # noqa: E402
from twisted.test import proto_helpers                           # noqa: E402
from zope.interface import implementer                           # noqa: E402

import txtorcon                                                   # noqa: E402
from txtorcon import TorControlProtocol                           # noqa: E402

import simtor                                                     # noqa: E402
import oa                                                         # noqa: E402

assert os.path.abspath(txtorcon.__file__).startswith(os.path.abspath(REPO)), txtorcon.__file__


class FakeProcessTransport(object):
    pid = 4242

    def __init__(self):
        self.signals = []
        self.closed = 0
        self.exited = False

    def closeStdin(self):
        pass

    def signalProcess(self, sig):
        if self.exited:
            raise error.ProcessExitedAlready()
        self.signals.append(sig)

    def loseConnection(self):
        self.closed += 1
        if self.exited and self.held_status is not None:
            # the pipes are let go of: now Twisted reports that the process has ended
            status, self.held_status = self.held_status, None
            self.proto.processEnded(status)

    held_status = None
    proto = None


@implementer(IReactorProcess)
class LaunchReactor(oa.PortReactor):
    def __init__(self):
        oa.PortReactor.__init__(self)
        self.ptransport = None
        self.pproto = None

    def spawnProcess(self, proto, executable, args=(), env={}, path=None, **kw):
        self.pproto = proto
        self.ptransport = FakeProcessTransport()
        self.ptransport.proto = proto
        proto.makeConnection(self.ptransport)
        self.spawn_args = list(args)
        return self.ptransport


class Run(object):
    TIMEOUT = 60

    def __init__(self, dirkind):
        self.dirkind = dirkind
        self.reactor = LaunchReactor()
        self.userdir = tempfile.mkdtemp(prefix="verif-tordata-") if dirkind in ("user", "cfg", "usernew") else None
        if dirkind == "usernew":
            os.rmdir(self.userdir)          # the caller names a directory that does not exist yet (a first run)
        self.extradir = None
        self.conn_d = []
        self.sims = []
        self.fired = []
        self.exc = False
        self.errors = []
        self.nlog = 0
        self.cursim = None

        def connection_creator():
            d = defer.Deferred()
            self.conn_d.append(d)
            return d
        try:
            kw = dict(data_directory=self.userdir)
            if dirkind == "cfg":
                # the caller's directory is named by the configuration object handed in (as launch_tor() callers do),
                # not by the keyword; it holds the caller's files
                with open(os.path.join(self.userdir, "state"), "w") as f:
                    f.write("caller's\n")
                cfg0 = txtorcon.TorConfig()
                cfg0.DataDirectory = self.userdir
                kw = dict(_tor_config=cfg0)
            d = txtorcon.launch(self.reactor, tor_binary="/nonexistent/fake-tor",
                                connection_creator=connection_creator, timeout=self.TIMEOUT, socks_port=9999,
                                progress_updates=lambda p, t, s: None, **kw)
            d.addBoth(self.fired.append)
        except Exception:
            self.exc = True
            self.errors.append(failure.Failure().getTraceback())
        self.datadir = self.userdir
        if dirkind == "usernew" and os.path.isdir(self.userdir):
            with open(os.path.join(self.userdir, "state"), "w") as f:      # what Tor keeps there
                f.write("tor's\n")
        if self.reactor.pproto is not None and dirkind == "temp":
            cfg = self.reactor.pproto.config
            self.datadir = cfg.DataDirectory
        if self.reactor.pproto is not None and dirkind == "cfg":
            self.extradir = self.reactor.pproto.config.DataDirectory      # (whatever directory launch() decided to run in)
        self.pp = self.reactor.pproto

    def step(self, e):
        a = e["a"]
        try:
            if a != "Timeout" and self.reactor.seconds() < self.TIMEOUT - 2:
                self.reactor.advance(1)          # time passes between the steps (a second each; the timeout is a minute)
            if a == "Shutdown":
                # the application's reactor stops: its "before shutdown" triggers run (MemoryReactor only records them)
                for fn, args, kw in list(self.reactor.triggers.get("before", {}).get("shutdown", [])):
                    fn(*args, **kw)
                return self.obs()
            if a == "Stdout":
                if e["marker"]:
                    self.pp.outReceived(b"Oct 03 12:00:00.000 [notice] Opening Control listener on /tmp/x/control.socket\n")
                else:
                    # anything else Tor prints, progress lines included: stdout is not the control connection
                    lines = [b"Oct 03 12:00:00.000 [notice] Tor 0.4.8.0 running on Linux.\n",
                             b"Oct 03 12:00:01.000 [notice] Bootstrapped 100% (done): Done\n",
                             b"Oct 03 12:00:01.000 [notice] Bootstrapped 45% (requesting_descriptors): Asking for relay descriptors\n",
                             b"Oct 03 12:00:01.000 [notice] Bootstrapped 100% (done): Done\nOct 03 12:00:02.000 [notice] New control connection opened.\n",
                             b"Oct 03 12:00:01.000 [warn] Opening Control liste"]
                    self.nstd = getattr(self, "nstd", 0) + 1
                    self.pp.outReceived(lines[self.nstd % len(lines)])
            elif a == "Stderr":
                try:
                    self.pp.errReceived(b"Oct 03 12:00:00.000 [warn] something went to stderr\n")
                except RuntimeError:
                    pass        # the process transport logs what errReceived raises; the pipes are closed, nothing else
            elif a == "Connect":
                d = self.conn_d.pop(0)
                if e["how"] == "refused":
                    d.errback(failure.Failure(error.ConnectionRefusedError("injected")))
                else:
                    proto = TorControlProtocol()
                    tr = proto_helpers.StringTransport()
                    sim = simtor.SimTor(proto, tr)
                    sim.events = "STATUS_CLIENT CONF_CHANGED CIRC STREAM"
                    sim.info.update({"config/names": ["Nickname String"], "config/defaults": ["Nickname Unnamed"],
                                     "onions/current": "", "onions/detached": ""})
                    if e["how"] == "authfail":
                        sim.handlers["AUTHENTICATE"] = lambda line: b"515 Authentication failed\r\n"
                    sim.hold = lambda line: line in ("SETEVENTS STATUS_CLIENT", "TAKEOWNERSHIP", "RESETCONF __OwningControllerProcess")
                    self.cursim = sim
                    self.sims.append(sim)
                    self.nlog = 0
                    proto.makeConnection(tr)
                    d.callback(proto)
                    sim.pump()
            elif a == "CtlReply":
                self.cursim.release(None if e["ok"] else b"552 rejected (injected)\r\n")
            elif a == "Progress":
                sim = [s for s in self.sims if "STATUS_CLIENT" in s.proto.events][0]
                sim.event('650 STATUS_CLIENT NOTICE BOOTSTRAP PROGRESS=%d TAG=%s SUMMARY="step %d"\r\n'
                          % (e["p"], "done" if e["p"] == 100 else "loading", e["p"]))
            elif a == "Timeout":
                # the launch timeout counts from the launch, whatever happened in between
                self.reactor.advance(self.TIMEOUT - self.reactor.seconds())
            elif a == "ExitHeld":
                # the process is reaped, one of its pipes stays open: processExited now, processEnded once the pipes close
                self.reactor.ptransport.exited = True
                status = failure.Failure(error.ProcessTerminated(exitCode=1, signal=None) if int(self.reactor.seconds()) % 2 else error.ProcessDone(0))
                self.reactor.ptransport.held_status = status
                self.pp.processExited(status)
            elif a == "Exit" and self.reactor.ptransport.held_status is not None:
                status, self.reactor.ptransport.held_status = self.reactor.ptransport.held_status, None
                self.pp.processEnded(status)          # the pipes close at last
            elif a == "Exit" and self.reactor.ptransport.exited:
                pass                                  # (already reported as ended when the pipes were let go of)
            elif a == "Exit":
                self.reactor.ptransport.exited = True
                # how the process ended does not matter to the property: an error code, a signal, or a clean exit (status 0,
                # e.g. after SIGNAL SHUTDOWN from another controller) - which one depends on how many steps came before
                how = int(self.reactor.seconds()) % 3
                if how == 2:
                    status = failure.Failure(error.ProcessDone(0))
                else:
                    status = failure.Failure(error.ProcessTerminated(exitCode=1 if how == 0 else None, signal=None if how == 0 else 15))
                self.pp.processExited(status)
                self.pp.processEnded(status)
            else:
                raise ValueError(a)
            for s in self.sims:
                s.pump()
        except Exception:
            self.exc = True
            self.errors.append(failure.Failure().getTraceback())
        return self.obs()

    def obs(self):
        wrote = []
        if self.cursim is not None:
            for line in self.cursim.log[self.nlog:] + list(self.cursim.held):
                w = line.split()[0]
                if line in ("SETEVENTS STATUS_CLIENT", "TAKEOWNERSHIP", "RESETCONF __OwningControllerProcess") and (w, id(self.cursim)) not in self._seen():
                    self._seen().add((w, id(self.cursim)))
                    wrote.append(w)
            self.nlog = len(self.cursim.log)
        launch = "p"
        if self.fired:
            launch = "err" if isinstance(self.fired[0], failure.Failure) else "ok"
        return dict(launch=launch, nlaunch=len(self.fired), terms=len([s for s in self.reactor.ptransport.signals if s == "TERM"]),
                    dir=bool(self.datadir and os.path.isdir(self.datadir)), wrote=wrote, exc=self.exc)

    def _seen(self):
        if not hasattr(self, "_seen_set"):
            self._seen_set = set()
        return self._seen_set

    def close(self):
        for d in (self.userdir, self.datadir, self.extradir):
            if d and os.path.isdir(d):
                shutil.rmtree(d, True)


def replay(script, dirkind):
    run = Run(dirkind)
    steps = []
    for e in script:
        s = dict(e)
        s["obs"] = run.step(e)
        steps.append(s)
        if run.exc:
            break
    run.close()
    return dict(steps=steps, dirkind=dirkind, errors=run.errors[:2])


class _Sink(object):
    def __call__(self, ev):
        pass


log.startLoggingWithObserver(_Sink(), setStdout=False)
