"""C15: onion creation completes only on this service's confirmed upload (spec/OnionUp*.tla)."""
import json
import random

import common
import pipeline
import tlc
import ou

ASSUME = [
    "HS_DESC events are delivered as '650 HS_DESC UPLOAD|UPLOADED|FAILED <service> UNKNOWN <directory>' lines; the ADD_ONION (ephemeral) or "
    "SETCONF (filesystem; the hostname file appears when Tor has processed it) reply is withheld until the script's Reply step",
    "progress ('completes' / 'fails as soon as due') is demanded only for histories in which Tor acknowledges the service before "
    "announcing its uploads; for the others only safety (only after own success, at most once, unsubscribed afterwards)",
    "filesystem services are created both on a fresh directory (the address becomes known with the reply) and on a directory Tor has "
    "served before (hostname file present from the start: events before the reply are then attributable and count)",
    "FAILED events that report a failed descriptor fetch (a directory no upload was announced to, REASON=NOT_FOUND), for either "
    "service, are interleaved; they decide nothing; nor do Tor's other descriptor reports (CREATED - also a rebuild while uploads "
    "are being followed -, REQUESTED, RECEIVED, IGNORE), which are interleaved for either service as well",
    "failed uploads are reported with REASON=UPLOAD_REJECTED and REASON=UNEXPECTED in turn (the directory rejected the descriptor / "
    "could not be reached)",
    "Tor may report the outcome of an upload to one directory a second time (UploadedAgain / FailedAgain): what was counted once is not "
    "counted twice",
    "the control connection may be lost at any point (Lose): a pending wait - also an await-all wait with some uploads confirmed and "
    "others outstanding - and an unanswered creation fail",
    "in two of five executions the caller passes a progress callback (its calls are recorded; the outcome must not depend on it)",
    "authenticated ephemeral services (which match uploads by a permanent id derived from an RSA key) are not replayed",
    "every fourth creation is started right after an earlier service's creation completed on the same connection, while the SETEVENTS "
    "that gives up HS_DESC for it is still unanswered (it is answered at the first step); in another quarter the application has an "
    "HS_DESC listener of its own on the connection (the event then stays subscribed; the creation's listener must still go)",
]


def rand_script(rng):
    dirs = ["d1", "d2", "d3", "d4"][:rng.randint(1, 4)]
    up = dict(((s, d), "none") for s in ("me", "other") for d in dirs)
    script = []
    replied = False
    if rng.random() < 0.12:
        # Tor refuses the creating command (before announcing anything for the service); other services go on
        for _ in range(rng.randint(0, 3)):
            d = rng.choice(dirs)
            if up[("other", d)] == "none":
                up[("other", d)] = "started"
                script.append(dict(a="Upload", s="other", d=d))
        script.append(dict(a="Refuse"))
        for _ in range(rng.randint(0, 3)):
            d = rng.choice(dirs)
            if up[("other", d)] == "started":
                up[("other", d)] = "ok"
                script.append(dict(a="Uploaded", s="other", d=d))
        return script
    if rng.random() < 0.7:
        script.append(dict(a="Reply"))
        replied = True
    for _ in range(rng.randint(3, 20)):
        if not replied and rng.random() < 0.25:
            script.append(dict(a="Reply"))
            replied = True
            continue
        s, d = rng.choice(["me", "me", "other"]), rng.choice(dirs)
        st = up[(s, d)]
        if rng.random() < 0.12:
            # Tor's other reports about a descriptor (built / rebuilt, a fetch started, answered, ignored): not uploads
            script.append(dict(a="Notice", s=s, d=d, k=rng.choice(["CREATED", "CREATED", "REQUESTED", "RECEIVED", "IGNORE"])))
        elif st in ("ok", "failed") and rng.random() < 0.5:
            # Tor reports the outcome once more (the second of a v3 service's two descriptors on the same directory)
            script.append(dict(a="UploadedAgain" if st == "ok" else "FailedAgain", s=s, d=d))
        elif st == "none" and rng.random() < 0.2:
            script.append(dict(a="FetchFailed", s=s, d=d))      # a failed fetch of the descriptor: not an upload
        elif st == "none":
            up[(s, d)] = "started"
            script.append(dict(a="Upload", s=s, d=d))
        elif st == "started":
            if rng.random() < 0.5:
                up[(s, d)] = "ok"
                script.append(dict(a="Uploaded", s=s, d=d))
            else:
                up[(s, d)] = "failed"
                script.append(dict(a="Failed", s=s, d=d))
        if rng.random() < 0.04:
            script.append(dict(a="Lose"))       # the control connection goes away: nothing more arrives
            break
    return script


def run(pid, tier, seed):
    rep = common.Report(pid, tier, seed)
    rep.assumptions = list(ASSUME)
    pipeline.design_check(rep, "OnionUp_MC",
                          ["OnionUp_MC_ideal_quick", "OnionUp_MC_asis_quick"] if tier == "quick"
                          else ["OnionUp_MC_ideal_quick", "OnionUp_MC_asis_quick", "OnionUp_MC_ideal_thorough", "OnionUp_MC_asis_thorough"],
                          timeout=300 if tier == "quick" else 1500, expect_cex=["OnionUp_Dev_foreign"])
    rng = random.Random(seed)
    sims = pipeline.generate(rep, "OnionUp_Gen", "OnionUp_Gen.cfg", 400 if tier == "quick" else 5000, 26, seed, allvars=True)
    jobs = [(st["hist"], st["mode"], st["hostEarly"]) for st in sims]
    jobs += [(rand_script(rng), rng.choice(["first", "all"]), rng.random() < 0.3) for _ in range(300 if tier == "quick" else 5000)]
    traces, seen = [], set()
    # directed: every own upload has failed before Tor answers the creation command, with and without other HS_DESC listeners
    for mode in ("first", "all"):
        for kind in ("fs", "eph"):
            for pre, he in ((False, False), (True, False), ("listener", False), (False, True), (True, True), ("listener", True)):
                if he and kind != "fs":
                    continue
                for s in ([dict(a="Upload", s="me", d="d1"), dict(a="Failed", s="me", d="d1"), dict(a="Reply")],
                          [dict(a="Upload", s="me", d="d1"), dict(a="Upload", s="me", d="d2"), dict(a="Failed", s="me", d="d1"),
                           dict(a="Failed", s="me", d="d2"), dict(a="Reply")],
                          [dict(a="Upload", s="me", d="d1"), dict(a="Upload", s="other", d="d2"), dict(a="Failed", s="me", d="d1"),
                           dict(a="Reply"), dict(a="Uploaded", s="other", d="d2")],
                          [dict(a="Reply"), dict(a="Upload", s="me", d="d1"), dict(a="Upload", s="me", d="d2"), dict(a="Uploaded", s="me", d="d1"),
                           dict(a="Lose")],
                          [dict(a="Upload", s="me", d="d1"), dict(a="Lose")]):
                    traces.append(ou.replay(s, mode, kind, prelude=pre, he=he, progress=(len(traces) % 2 == 1)))
    for i, (s, mode, he) in enumerate(jobs):
        # every fourth creation starts right after another one on the same connection, whose giving up of HS_DESC is unanswered
        traces.append(ou.replay(s, mode, "fs" if (he or i % 3 == 0) else "eph",
                                prelude=(True if i % 4 == 3 else "listener" if i % 4 == 1 else False), he=he,
                                progress=(i % 5 in (1, 2))))        # the caller follows the progress through a callback
        if any(e["a"] == "Uploaded" for e in s) or sum(1 for e in s if e["a"] == "Failed") >= 2:
            seen.add(common.digest([s, mode]))
    rep.cov["evaluations"] = len(traces)
    rep.cov["distinct_nontrivial"] = len(seen)
    rep.cov["rule"] = ("orderings of UPLOAD / UPLOADED / FAILED events over 1..4 directories for the service and a second service sharing "
                       "them, the creation reply before / between / after, both waiting modes: TLC -simulate behaviours of OnionUp_Gen plus "
                       "seeded random orderings, replayed through EphemeralOnionService.create and FilesystemOnionService.create; distinct by "
                       "hash; non-trivial = contains a confirmed upload or >= 2 failures")
    allknown = dict((f["id"], f) for f in common.open_findings(pid))
    ok = pipeline.validate(rep, pid, "OnionUp", "OnionUpTrace", "OnionUpTrace.cfg", traces, chunk=300, known=allknown,
                           payload=lambda t: dict(script=pipeline.strip_obs(t), mode=t["mode"], kind=t["kind"], prelude=t["prelude"], he=t["he"], progress=t["progress"]))
    rep.cov["samples"] = [dict(mode=t["mode"], kind=t["kind"], steps=t["steps"][:10]) for t in ok[:2]]
    return rep.finish()


def replay(pid, path):
    p = json.load(open(path))
    t = ou.replay(p["script"], p["mode"], p["kind"], p.get("prelude", False), p.get("he", False), p.get("progress", False))
    res, r = tlc.validate_traces("OnionUpTrace", "OnionUpTrace.cfg", [t])
    x = res[0]
    known = set(f["id"] for f in common.open_findings(pid))
    print("replay: matched %d of %d steps, deviations %s" % (x["matched"], x["wanted"], x["devs"]))
    if x["matched"] != x["wanted"] or (set(x["devs"]) - known):
        print("VIOLATION property=%s replay=%s" % (pid, path))
        return 1
    return 0
