"""C10 and C11: TorConfig (spec/Config*.tla)."""
import json
import random

import common
import pipeline
import tlc
import cfgh

ASSUME = [
    "SimTor applies SETCONF exactly as the model's Tor store does (options named are replaced as a whole, an empty value clears, "
    "rejection leaves the store unchanged) and provides config/defaults; like Tor it announces (CONF_CHANGED) every option whose value "
    "a SETCONF changed - ours or another controller's - in the order the changes were applied; an announcement reaches us at any later "
    "step (Deliver); one SETCONF gives one event naming every option it changed",
    "values are abstract tokens mapped per trace to concrete options of each declared type (String, Boolean, Float, Integer, "
    "Boolean+Auto, LineList x2, a *Port list); the harness checks the Python type of what reads return",
    "save() may be called again while an earlier save awaits its reply (random scripts only; the ideal mechanism is specified "
    "for one save at a time, so from such a step on only conformance to the as-is mechanism is demanded); "
    "in-place edits of an option whose pending value is another object (an assignment, or an edit overtaken by a change event) "
    "and change events for options with pending local changes are part of the exploration",
    "the order of different options inside one SETCONF is not compared, the order of one option's values is",
    "comma-list options (RouterList etc.) are outside the exploration: Tor stores them as one comma-joined value, not as repeated lines",
    "in every fifth C11 execution another controller changes an option while our bootstrap is still reading the configuration (the "
    "GETCONF answer carries the old value, the announcement the new one): the attached view must show the new one",
    "half of the offline-populated configurations are first asked for the option under its usual spelling (a read that fails), then given "
    "it under another spelling, then attached - what launch() does with a caller's configuration",
    "in every fourth random C11 script a line-list option may hold one value that is the empty text (Tor answers / announces 'Log=' "
    "rather than 'Log'): reads must return that one empty value, not the default; the user does not edit or assign such a value",
]


def edits_of(l, elems, maxlen, rng):
    out = []
    if len(l) < maxlen:
        out.append(l + [rng.choice(elems)])
        i = rng.randint(0, len(l))
        out.append(l[:i] + [rng.choice(elems)] + l[i:])
    if len(l) + 2 <= maxlen:
        out.append(l + [rng.choice(elems), rng.choice(elems)])
    if l:
        i = rng.randrange(len(l))
        out.append(l[:i] + l[i + 1:])
        j = rng.randrange(len(l))
        out.append(l[:j] + [rng.choice(elems)] + l[j + 1:])
    return [x for x in out if x != l]


def rand_script(rng, n, events, nodef=False, ez=False):
    """a random walk over the as-is Config model (kept in step here only to produce legal stimulus: which
    announcements Tor has queued, what an in-place edit starts from); the oracle is ConfigTrace.tla"""
    # ez: token z of the first list option stands for the empty text; it is only ever what Tor reports as that option's
    # single value (at attach, or announced after another controller's change), and the user neither assigns it nor edits
    # a list that holds it (Tor would read a lone empty value in a SETCONF as "clear")
    elems = ["x", "y"] if ez else ["x", "y", "z"]
    tor = dict(s1=rng.choice([[], ["a"], ["b"]]), s2=rng.choice([[], ["a"], ["b"]]),
               l1=[rng.choice(elems) for _ in range(rng.randint(0, 3))], l2=[rng.choice(elems) for _ in range(rng.randint(0, 2))])
    if ez and rng.random() < 0.3:
        tor["l1"] = ["z"]
    view = dict((k, list(v)) for k, v in tor.items())
    for k in ("l1", "l2"):
        if not view[k]:
            view[k] = [] if (nodef and k == "l2") else ["d1"]
    script = [dict(a="Attach", store=dict((k, list(v)) for k, v in tor.items()))]
    pend, pval, busy, inflight, evq = [], {}, False, [], []
    flights = []        # the pair lists of the saves awaiting a reply, oldest first

    def touch(o, v):
        if o not in pend:
            pend.append(o)
        pval[o] = list(v)

    while len(script) < n:
        r = rng.random()
        if evq and r < 0.25:
            chs = evq.pop(0)
            script.append(dict(a="Deliver", chs=[dict(o=o, v=list(v)) for o, v in chs]))
            for o, vals in chs:
                if o.startswith("l"):
                    view[o] = list(vals) if vals else ([] if (nodef and o == "l2") else ["d1"])
            continue
        if busy and r < 0.45:
            head = flights.pop(0)
            if rng.random() < 0.75:
                script.append(dict(a="SaveAck"))
                seen, changed = [], []
                for o, _ in head:
                    if o in seen:
                        continue
                    seen.append(o)
                    new = [v for k, v in head if k == o]
                    if new != tor[o]:
                        changed.append((o, new))
                    tor[o] = new
                if changed:
                    evq.append(changed)
                del pend[:]                      # as-is: the whole pending set is dropped
            else:
                script.append(dict(a="SaveReject"))
            busy = bool(flights)
            continue
        if r < 0.04 and not busy and not pend and not evq and not flights:
            # a bare string assigned to the list-valued port option and saved; until Tor's announcement of that save has
            # arrived the view of that option is not compared (the code shows the bare string meanwhile)
            x = rng.choice([e for e in elems if [e] != tor["l2"]])
            script.append(dict(a="Assign", o="l2", v=[x], bare=True))
            script.append(dict(a="SaveSend", skipview=["l2"]))
            script.append(dict(a="SaveAck", skipview=["l2"]))
            tor["l2"] = [x]
            view["l2"] = [x]
            script.append(dict(a="Deliver", chs=[dict(o="l2", v=[x])]))
            continue
        if r < 0.55:
            o = rng.choice(["s1", "s2"])
            v = [rng.choice(["a", "b"])]
            script.append(dict(a="Assign", o=o, v=v))
            touch(o, v)
        elif r < 0.62:
            o = rng.choice(["l1", "l2"])
            v = [rng.choice(elems) for _ in range(rng.randint(0, 3))]
            script.append(dict(a="Assign", o=o, v=v))
            touch(o, v)
        elif r < 0.66 and not nodef and not ez:
            o = rng.choice(["l1", "l2"])
            o2 = "l2" if o == "l1" else "l1"
            v = list(view[o2])
            script.append({"a": "AssignFrom", "o": o, "from": o2})       # cfg.o = cfg.o2
            touch(o, v)
        elif r < 0.80:
            o = rng.choice(["l1", "l2"])
            cands = edits_of(view[o], elems, 4, rng) if "z" not in view[o] or not ez else []
            if not cands:
                continue
            nv = rng.choice(cands)
            script.append(dict(a="ListOp", o=o, old=list(view[o]), v=nv))
            view[o] = nv
            touch(o, nv)
        elif r < 0.92 and (not busy or (len(flights) < 3 and rng.random() < 0.3)):
            # (now and then a second save() is made while an earlier one still awaits its reply)
            script.append(dict(a="SaveSend"))
            if pend:
                busy = True
                inflight = []
                flights.append(inflight)
                for o in pend:
                    for x in pval[o]:
                        if x != "DEFAULT":
                            inflight.append((o, x))
                    if o.startswith("l"):
                        view[o] = list(pval[o])
        elif events:
            chs = []
            for o in rng.sample(["s1", "s2", "l1", "l2"], rng.choice([1, 1, 2])):
                if o.startswith("s"):
                    v = rng.choice([[], ["a"], ["b"]])
                else:
                    v = [rng.choice(elems) for _ in range(rng.randint(0, 3))]
                    if ez and o == "l1" and rng.random() < 0.4:
                        v = ["z"]
                if v != tor[o]:
                    chs.append((o, v))
            if not chs:
                continue
            for o, v in chs:
                tor[o] = list(v)
            evq.append(chs)
            script.append(dict(a="OtherChange", chs=[dict(o=o, v=list(v)) for o, v in chs]))
    return script


def run(pid, tier, seed):
    rep = common.Report(pid, tier, seed)
    rep.assumptions = list(ASSUME)
    pipeline.design_check(rep, "Config_MC",
                          ["Config_MC_ideal_quick", "Config_MC_ideal_nodef", "Config_MC_asis_quick"] if tier == "quick"
                          else ["Config_MC_ideal_quick", "Config_MC_ideal_nodef", "Config_MC_asis_quick", "Config_MC_ideal_thorough", "Config_MC_asis_thorough"],
                          timeout=250 if tier == "quick" else 900,
                          expect_cex=["Config_Dev_DEmpt", "Config_Dev_DLost"] if pid == "C10" else ["Config_Dev_DDef"])
    rng = random.Random(seed)
    sims = pipeline.generate(rep, "Config_Gen", "Config_Gen_%s.cfg" % pid, 300 if tier == "quick" else 3000, 30, seed)
    scripts = [(s, False, False) for s in sims]
    for k in range(300 if tier == "quick" else 4000):
        # every fourth random script runs against a Tor whose second list option has no built-in default
        scripts.append((rand_script(rng, rng.choice([12, 25, 50]) if tier == "quick" else rng.choice([25, 60, 150]), events=(pid == "C11"),
                                    nodef=(k % 4 == 1), ez=(pid == "C11" and k % 4 == 3)), k % 4 == 1, pid == "C11" and k % 4 == 3))
    traces, seen = [], set()
    for i, (s, nodef, ez) in enumerate(scripts):
        pick = dict(s1=i % 3, s2=(i // 3) % 2, l1=(i // 6) % 2, l2=0, offline=(i % 4 == 3))
        if any(e["a"] == "AssignFrom" for e in s):
            pick["l1"] = 2          # both list options with the same concrete texts: a copied value keeps its tokens
        if ez:
            pick["ez"] = True
        if nodef:
            pick["l2"] = 1          # the second list option is one Tor has no built-in default for (TransPort)
            pick["l1"] = min(pick["l1"], 1)
        if pid == "C11" and i % 7 == 5 and not pick["offline"]:
            pick["extral"] = True       # the application adds an event listener of its own while the bootstrap starts
        if pid == "C11" and pick["offline"] and i % 8 >= 4:
            pick["probe"] = True        # the offline config is first asked for the option under the usual spelling (as launch() does)
        if pid == "C11" and i % 5 == 2:
            pick["midboot"] = ["s2", "l1", "s1"][(i // 5) % 3]       # a change by another controller during our bootstrap
        traces.append(cfgh.replay(s, pick))
        acts = [e["a"] for e in s]
        if ("SaveSend" in acts and ("ListOp" in acts or "Assign" in acts)) if pid == "C10" else ("Deliver" in acts):
            seen.add(common.digest(s))
    rep.cov["evaluations"] = len(traces)
    rep.cov["distinct_nontrivial"] = len(seen)
    rep.cov["rule"] = ("scripts (attach to an initial store with unset / one / many values, assignments, the six in-place list operations, "
                       "save sent / acknowledged / rejected with edits in between%s): TLC -simulate behaviours of Config_Gen_%s plus seeded "
                       "random scripts rich in in-place edits, each replayed with a rotation of concrete option types; distinct by hash; "
                       "non-trivial = %s" % ("; Tor's CONF_CHANGED announcements of our own saves" + (" and of other controllers' changes with 0/1/many values" if pid == "C11" else "")
                                + ", delivered at any later point", pid,
                                             "an edit followed by a save" if pid == "C10" else "at least one CONF_CHANGED event delivered"))
    allknown = dict((f["id"], f) for f in common.known_findings().get("open", []))
    mine = set(f["id"] for f in common.open_findings(pid))

    class Rep2(object):
        pass
    orig = rep.known_finding

    def kf(fid, what):
        if fid in mine:
            orig(fid, what)
    rep.known_finding = kf
    # two batches: against a Tor whose second list option has a built-in default, and one where it has none
    ok = []
    for nodef in (False, True):
        part = [t for t in traces if (t["pick"].get("l2") == 1) == nodef]
        ok += pipeline.validate(rep, pid, "Config", "ConfigTrace", "ConfigTrace.cfg", part, chunk=150, known=allknown,
                                payload=lambda t: dict(script=pipeline.strip_obs(t), pick=t["pick"]),
                                extra_env=dict(NODEF="1") if nodef else None)
    rep.cov["samples"] = [dict(names=t["names"], steps=t["steps"][:8]) for t in ok[:1]]
    return rep.finish()


def replay(pid, path):
    p = json.load(open(path))
    t = cfgh.replay(p["script"], p["pick"])
    res, r = tlc.validate_traces("ConfigTrace", "ConfigTrace.cfg", [t], 1800, dict(NODEF="1") if p["pick"].get("l2") == 1 else None)
    x = res[0]
    known = set(f["id"] for f in common.known_findings().get("open", []))
    print("replay: matched %d of %d steps, deviations %s" % (x["matched"], x["wanted"], x["devs"]))
    if x["matched"] != x["wanted"] or (set(x["devs"]) - known):
        print("VIOLATION property=%s replay=%s" % (pid, path))
        return 1
    return 0
