"""C17: onion endpoint listen() (spec/OnionListen*.tla)."""
import json

import common
import pipeline
import tlc
import ol

ASSUME = [
    "configurations fsauth_basic / fsauth_stealth: authenticated filesystem services, driven with the faults up to Tor's answer to the "
    "SETCONF only (config, bind, reject, disconnect while the command is outstanding)",
    "noise 'fail' also places, between the announcement of our upload and its confirmation, another service's refused upload and a failed "
    "fetch of that service's descriptor at the very directory our upload went to (a shared directory); they decide nothing",
    "noise 'fetchfail': HS_DESC FAILED events for this service's own address that report a failed descriptor *fetch* (REASON=NOT_FOUND, "
    "a directory no upload was announced to) arrive while the creation command is outstanding and during the wait; they decide nothing",
    "endpoint configurations: ephemeral v3 / v2 with a supplied key / single-hop / with local_port=, filesystem with explicit and implicit "
    "directory / with local_port=, Tor.create_onion_endpoint and Tor.create_filesystem_onion_endpoint, and 'onion:<port>:controlPort=...' endpoint "
    "strings (through TCPHiddenServiceEndpointParser.parseStreamServer, what serverFromString calls; the endpoint then makes its own "
    "control connection, which is the 'config' step and may be refused); 'onion:' strings without controlPort (they launch a global "
    "Tor) and authenticated services (they need real RSA keys for the permanent id) are not driven",
    "one fault per run: configuration Deferred fails, local bind raises CannotListenError, ADD_ONION / SETCONF answered 512, every "
    "descriptor upload FAILED, control connection lost while the creation command, the descriptor wait or the final unsubscription "
    "(SETEVENTS without HS_DESC, answered in a step of its own) is outstanding",
    "scripts reject_retry / none_relisten: listen() is called again on the same endpoint object - after Tor refused the service (everything "
    "again with a new local listener), and after the port object of a successful listen() was stopped (the service exists: Tor is not "
    "asked again and the listener is bound on the local port the service forwards to; none_relisten_busy: that port cannot be bound any "
    "more: listen fails with the bind error and leaves nothing open)",
    "fault subscribe: Tor answers the subscription to its descriptor events (SETEVENTS ... HS_DESC) with 552 and accepts everything else: "
    "listen fails with that error once the creation command is answered, no listener stays open",
    "fault cancel_wait: the caller cancels the Deferred listen() returned (as a timeout put on it would) during the descriptor wait: "
    "listen must fail (once the subscription has been given up) and close the local listener, never hand out a port object",
    "every configuration x fault is also run with another HS_DESC listener on the same connection (the application's own): giving up the "
    "service's subscription then needs no exchange with Tor and the outcome is delivered with the deciding event",
    "the reactor is a fake whose listenTCP hands out port numbers and records open listeners and their interface",
]


def run(pid, tier, seed):
    rep = common.Report(pid, tier, seed)
    rep.assumptions = list(ASSUME)
    pipeline.design_check(rep, "OnionListen", ["OnionListen_MC"], timeout=200)
    traces = []
    for cfg in ol.configurations():
        for fault in ol.SCRIPTS:
            if fault == "invalid" or (cfg.startswith("tor_") and fault == "config"):
                continue
            if cfg.startswith("fsauth_") and fault not in ("config", "bind", "reject", "disconnect_create"):
                continue
            if cfg == "eph2key_retry" and fault == "subscribe":
                continue        # (the earlier attempt of that configuration would meet the refused subscription first)
            for noise in ("", "up", "fail", "fetchfail"):
                traces.append(ol.replay(cfg, fault, noise))
            if fault in ol.MODEL_FAULT:
                continue
            if fault not in ("disconnect_unsub", "subscribe") and not cfg.startswith("str_"):       # (a connection the endpoint makes for itself has no other users)
                # the same with somebody else listening to HS_DESC on the connection as well
                traces.append(ol.replay(cfg, fault, "", others=True))
                traces.append(ol.replay(cfg, fault, "up", others=True))
    for cfg in ol.INVALID:
        traces.append(ol.replay(cfg, "invalid"))
    rep.cov["evaluations"] = len(traces)
    rep.cov["distinct_nontrivial"] = len(set((t["cfg"], t["script"], t["noise"], t["others"]) for t in traces))
    rep.cov["exhaustive"] = True
    rep.cov["rule"] = ("every endpoint configuration x every fault (none / config / bind / reject / all uploads failed / disconnect during "
                       "create / disconnect during wait / disconnect during the unsubscription / cancelled by the caller during the wait) x another HS_DESC "
                       "listener on the connection or not x descriptor events of another service (none / uploaded / failed, while the creation command "
                       "is outstanding and during the wait) plus the invalid option combinations; each is one step-by-step execution of the "
                       "real listen(); all are distinct and non-trivial")
    ok = pipeline.validate(rep, pid, "OnionListen", "OnionListenTrace", "OnionListenTrace.cfg", traces, chunk=100, nproc=4,
                           payload=lambda t: dict(cfg=t["cfg"], fault=t["script"], noise=t["noise"], others=t["others"]),
                           describe=lambda t: "(configuration %s, fault %s, foreign descriptor events %r%s)" % (
                               t["cfg"], t["script"], t["noise"], ", another HS_DESC listener on the connection" if t["others"] else ""))
    rep.cov["samples"] = [dict(cfg=t["cfg"], fault=t["fault"], steps=t["steps"]) for t in ok[:1]]
    return rep.finish()


def replay(pid, path):
    p = json.load(open(path))
    t = ol.replay(p["cfg"], p["fault"], p.get("noise", ""), p.get("others", False))
    res, r = tlc.validate_traces("OnionListenTrace", "OnionListenTrace.cfg", [t])
    x = res[0]
    print("replay: matched %d of %d steps" % (x["matched"], x["wanted"]))
    if x["matched"] != x["wanted"]:
        print("VIOLATION property=%s replay=%s" % (pid, path))
        return 1
    return 0
