"""C12 / C13: record what TorControlProtocol.set_conf writes and what
get_info / get_conf return, as single-step vectors decided by
spec/KvLineTrace.tla."""
import itertools
import random
import re

import cc                                             # noqa: F401 (sets sys.path, log sink)
from twisted.internet import error           # noqa: E402
from twisted.python import failure


def b(s):
    return list(s.encode("latin-1")) if isinstance(s, str) else list(s)


def setconf_vector(args, keysok, ctx="idle"):
    """ctx "queued": the call is made while another command is in flight and an earlier set_conf is
    waiting in the queue; what is recorded is what this call's own command line turns out to be"""
    run = cc.Run(wrap=False)
    p, tr = run.proto, run.tr
    err = False
    fired = []
    if ctx == "queued":
        p.queue_command("GETINFO version").addErrback(lambda f: None)
        p.set_conf("Nickname", "earlier").addErrback(lambda f: None)
        assert tr.value() == b"GETINFO version\r\n", tr.value()
        tr.clear()
    twin_queued = False
    if ctx == "dup":
        # the connection is busy, and the very same call (another part of the application making the same change) is
        # already waiting in the queue, followed by a different one; the call under test still gets a line of its own
        p.queue_command("GETINFO version").addErrback(lambda f: None)
        try:
            p.set_conf(*args).addErrback(lambda f: None)
            twin_queued = True
        except Exception:
            pass
        p.set_conf("Nickname", "between").addErrback(lambda f: None)
        assert tr.value() == b"GETINFO version\r\n", tr.value()
        tr.clear()
    try:
        d = p.set_conf(*args)
        d.addBoth(fired.append)
    except Exception:
        err = True
    extra = b""
    if ctx == "dup":
        extra = tr.value()      # nothing may be written while a reply is outstanding
        tr.clear()
        lines = []
        p.dataReceived(b"250-version=0.4.8.0\r\n250 OK\r\n")
        while tr.value() and len(lines) < 6:
            lines.append(tr.value())
            tr.clear()
            p.dataReceived(b"250 OK\r\n")
        # expected: [the identical earlier call's line,] the different call's line [, this call's line]
        k = lines.index(b"SETCONF Nickname=between\r\n") if b"SETCONF Nickname=between\r\n" in lines else -1
        if k < 0:
            extra += b"".join(lines) + b"SETCONF ?the-call-in-between-was-lost\r\n"
        else:
            before, after = lines[:k], lines[k + 1:]
            if len(before) > 1 or len(after) > 1 or (before and after and before[0] != after[0]):
                extra += b"SETCONF ?lines-not-one-per-call\r\n"
            extra += b"".join(after)
    if ctx == "repeat":
        # the same call was made before on this connection (and answered, if it was written at all):
        # what is recorded is the second call, which must fare exactly like a first one
        first_err = err or bool(fired and isinstance(fired[0], failure.Failure))
        if tr.value():
            tr.clear()
            p.dataReceived(b"250 OK\r\n")
        fired = []
        err = False
        try:
            p.set_conf(*args).addBoth(fired.append)
        except Exception:
            err = True
        if (err or bool(fired and isinstance(fired[0], failure.Failure))) != first_err:
            err = True
            extra = b"SETCONF ?second-call-differs\r\n"
    if ctx == "queued":
        extra = tr.value()      # nothing may be written while a reply is outstanding
        tr.clear()
        p.dataReceived(b"250-version=0.4.8.0\r\n250 OK\r\n")
        first = tr.value()
        tr.clear()
        if first != b"SETCONF Nickname=earlier\r\n":
            extra += first      # the earlier call's line is not its own any more: it counts as output of this call
        p.dataReceived(b"250 OK\r\n")
    if ctx == "refused" and not err and tr.value() and not (fired and isinstance(fired[0], failure.Failure)):
        # Tor refuses the change (5xx): the call fails with Tor's answer, and that is the end of it - whatever the
        # connection writes afterwards on its own counts as output of this call
        extra = tr.value()
        tr.clear()
        p.dataReceived(b"513 Unacceptable option value: injected\r\n")
        n = 0
        while tr.value() and n < 6:
            n += 1
            extra += tr.value()
            tr.clear()
            p.dataReceived(b"250 OK\r\n")
        if not (fired and isinstance(fired[0], failure.Failure)):
            extra += b"SETCONF ?the-refusal-did-not-reach-the-caller\r\n"
        fired = []
    if fired and isinstance(fired[0], failure.Failure):
        err = True
    wrote, wruns = shorten(extra + tr.value())
    pairs, lruns = [], []
    for i in range(0, len(args) - 1, 2):
        k, r1 = shorten(str(args[i]).encode("latin-1"))
        v, r2 = shorten(str(args[i + 1]).encode("latin-1"))
        pairs.append([list(k), list(v)])
        lruns += r1 + r2
    return dict(p="C12", pairs=pairs, keysok=keysok, wrote=list(wrote), err=err, lruns=lruns, wruns=wruns,
                args=[enc_arg(a) for a in args], ctx=ctx)


FILLER = b"Z"
_LONG = re.compile(b"Z{1024,}")


def shorten(data):
    """every run of 1024 or more filler bytes becomes four of them; the lengths of the runs are returned in order.  The
    same function is applied to what was asked for and to what was written (KvLine_MC!RunBlind: the grammar is blind to
    the length of such a run), so that a command line of megabytes stays within reach of the TLA+ parser"""
    runs = []

    def cut(m):
        runs.append(len(m.group()))
        return FILLER * 4
    return _LONG.sub(cut, data), runs


def enc_arg(a):
    """repr() of an argument; a long string as its run-length encoding (the replay file stays small)"""
    if isinstance(a, str) and len(a) > 1000:
        return repr(("rle", [(ch, len(list(g))) for ch, g in itertools.groupby(a)]))
    return repr(a)


def dec_arg(text):
    import ast
    a = ast.literal_eval(text)
    if isinstance(a, tuple) and len(a) == 2 and a[0] == "rle":
        return "".join(ch * n for ch, n in a[1])
    return a


def _deliver(proto, data, seg, rng):
    if seg == "whole":
        proto.dataReceived(data)
    elif seg == "bytes":
        for i in range(len(data)):
            proto.dataReceived(data[i:i + 1])
    else:
        i = 0
        while i < len(data):
            k = rng.randint(1, max(1, min(9, len(data) - i)))
            proto.dataReceived(data[i:i + k])
            i += k


def _cut(noise, data):
    """noise "cutloss<k>@end": the last k bytes of the reply never arrive (the cut falls inside the final line, at least
    one byte of it has arrived): the connection is lost instead"""
    if not noise.startswith("cutloss"):
        return 0
    k = int(noise[7:].split("@")[0])
    last = len(data) - (data[:-2].rfind(b"\r\n") + 2 if b"\r\n" in data[:-2] else 0)     # length of the final line with its CR LF
    return max(1, min(k, last - 1))


def _result(res, order):
    out = []
    if isinstance(res, failure.Failure) or not isinstance(res, dict):
        return [dict(k=b("?"), t="error", v=[])]
    keys = [k for k in order if k in res] + [k for k in res if k not in order]
    for k in keys:
        v = res[k]
        if isinstance(v, list):
            out.append(dict(k=b(k), t="list", v=[b(x) if isinstance(x, str) else b("?") for x in v]))
        elif type(v).__name__ == "DefaultValue" or (not isinstance(v, str)) or repr(v) == "DEFAULT":
            out.append(dict(k=b(k), t="default", v=[]))
        else:
            from txtorcon.torcontrolprotocol import DEFAULT_VALUE
            if v is DEFAULT_VALUE:
                out.append(dict(k=b(k), t="default", v=[]))
            else:
                out.append(dict(k=b(k), t="str", v=[b(v)]))
    return out


NOISE = {
    "none": b"",
    # asynchronous events are transparent to command replies, whatever their shape
    "midline": b"650-CONF_CHANGED\r\n650-SocksPort=9150\r\n650 OK\r\n",
    "block": b"650+NS\r\nr a b c 2030-01-01 00:00:00 10.0.0.1 9001 0\r\ns Fast\r\n.\r\n650 OK\r\n",
    "single": b"650 BW 1 2\r\n",
}


CANCELLED_REPLY = b"250-version=0.4.8.0\r\n250 OK\r\n"


SPLIT_EVENT = (b"650-CONF_CHANGED\r\n650-SocksPo", b"rt=9150\r\n650 OK\r\n")


def _noise(proto, noise, when):
    """see _noise_raw; an exception escaping the protocol while the noise is delivered is a (recorded) failure"""
    try:
        _noise_raw(proto, noise, when)
        return None
    except Exception:
        return failure.Failure()


def _noise_raw(proto, noise, when):
    """noise = <shape>@<when>: an unsolicited event before the command is issued or before its reply;
    cancel@before: an earlier command is in flight whose caller has given up (cancelled its Deferred):
    Tor still answers it, and the answer must not be taken for the next command's"""
    if not noise or noise == "none":
        return
    shape, at = noise.split("@")
    if shape in ("twin", "fallback", "otherconn", "spoiled"):
        return          # handled by the vector itself
    if shape == "split":
        # a multi-line event is half received when the command is issued; the rest arrives before the reply
        proto.dataReceived(SPLIT_EVENT[0 if when == "before" else 1])
        return
    if shape == "incremental":
        # an incremental request (as TorState makes for ns/all) was made and completely answered just before
        if when == "before":
            got = []
            proto.get_info_incremental("ns/all", got.append).addErrback(lambda f: None)
            proto.dataReceived(b"250+ns/all=\r\nr relay AAAA BBBB 2030-01-01 00:00:00 10.0.0.1 9001 0\r\ns Fast Running\r\n.\r\n250 OK\r\n")
        return
    if shape == "queuedinfo":
        # another part of the application asks for other keys while our request is in flight: its GETINFO waits in the
        # queue behind ours; our reply is ours alone
        if when == "during":
            proto.get_info("other/key", "config-file").addBoth(lambda _: None)
        return
    if shape == "cancel":
        if when == "before":
            d0 = proto.get_info("version")
            d0.addErrback(lambda f: None)
            d0.cancel()
        elif when == "during":
            proto.dataReceived(CANCELLED_REPLY)
        return
    if at == when:
        proto.dataReceived(NOISE[shape])


def stuff(line):
    return "." + line if line.startswith(".") else line


def _spoil(result):
    """what a caller may do with a result it owns: take it apart"""
    if isinstance(result, dict):
        for v in list(result.values()):
            if isinstance(v, list):
                del v[:]
        result.clear()
    elif isinstance(result, list):
        del result[:]


def _fallback(proto, issue):
    """the request under test is a fallback: it is issued from the error handler of a request Tor has just refused"""
    try:
        d0 = proto.queue_command("GETINFO no/such-key")
        d0.addErrback(issue)
        proto.dataReceived(b'552 Unrecognized key "no/such-key"\r\n')
    except Exception:
        return failure.Failure()
    return None


def _single(fired, key):
    """the *_single wrappers hand back the bare value: put it under its key so that one projection serves both forms"""
    def got(v):
        fired.append(v if isinstance(v, failure.Failure) else {key: v})
    return got


def getinfo_vector(kvs, seg="whole", rng=None, noise="none", api="dict"):
    """kvs: list of (key, block, lines); api: get_info (dict) or, for one key, get_info_single"""
    run = cc.Run(wrap=False)
    p = run.proto
    fired = []
    twin = []
    broke = None
    if noise == "twin@before":
        # the connection is busy, and an identical request (another caller's) is already waiting in the queue
        p.queue_command("GETINFO version").addErrback(lambda f: None)
        p.get_info(*[k for k, _, _ in kvs]).addBoth(twin.append)
    else:
        broke = _noise(p, noise, "before")
    if not (api == "single" and len(kvs) == 1):
        api = "dict"

    def issue(_=None):
        if api == "single":
            p.get_info_single(kvs[0][0]).addBoth(_single(fired, kvs[0][0]))
        else:
            p.get_info(*[k for k, _, _ in kvs]).addBoth(fired.append)
    if noise == "spoiled@before":
        # the very same request was made and answered before (here and on another connection of the process), and the
        # callers took the results they got apart; this request's result is its own
        for conn in (p, cc.Run(wrap=False).proto):
            got = []
            if api == "single":
                conn.get_info_single(kvs[0][0]).addBoth(got.append)
            else:
                conn.get_info(*[k for k, _, _ in kvs]).addBoth(got.append)
            w0 = []
            for key, block, lines in kvs:
                if block:
                    w0 += ["250+%s=" % key] + [stuff(l) for l in lines] + ["."]
                else:
                    w0.append("250-%s=%s" % (key, lines[0]))
            conn.dataReceived("".join(w + "\r\n" for w in w0 + ["250 OK"]).encode("latin-1"))
            if got:
                _spoil(got[0])
    if noise == "fallback@before":
        broke = _fallback(p, issue)
    else:
        issue()
    if noise != "twin@before":
        broke = broke or _noise(p, noise, "during")
    wire = []
    for key, block, lines in kvs:
        if block:
            wire.append("250+%s=" % key)
            wire.extend(stuff(l) for l in lines)
            wire.append(".")
        else:
            wire.append("250-%s=%s" % (key, lines[0]))
    wire.append("250 OK")
    data = "".join(w + "\r\n" for w in wire).encode("latin-1")
    lost = 0
    try:
        if noise == "twin@before":
            p.dataReceived(CANCELLED_REPLY)       # the busy command's answer
            _deliver(p, data, seg, rng)           # the twin's answer, then ours
        if noise == "otherconn@during":
            # another control connection of the same process receives a whole data-block reply while ours is half in
            cut = data.find(b"\r\n", len(data) // 3) + 2
            _deliver(p, data[:cut], seg, rng)
            other = cc.Run(wrap=False).proto
            other.get_info("other/key").addBoth(lambda _: None)
            other.dataReceived(b"250+other/key=\r\nforeign line 1\r\nforeign line 2\r\n.\r\n250 OK\r\n")
            data = data[cut:]
        lost = _cut(noise, data)
        _deliver(p, data[:len(data) - lost], seg, rng)
        if lost:
            p.connectionLost(failure.Failure(error.ConnectionDone()))
    except Exception:
        fired.append(failure.Failure())
    res = fired[0] if fired else None
    if broke is not None:
        res = broke
    if noise == "twin@before" and (not twin or isinstance(twin[0], failure.Failure) or twin[0] != res):
        res = failure.Failure(RuntimeError("the identical request queued before this one got %r" % (twin[:1],)))
    return dict(p="C13", cmd="GETINFO", kvs=[dict(key=b(k), block=bl, lines=[b(l) for l in ls]) for k, bl, ls in kvs],
                wire=[b(w) for w in wire], res=_result(res, [k for k, _, _ in kvs]), seg=seg, noise=noise,
                key=[], unset=False, vals=[], api=api, cut=(lost if noise.startswith("cutloss") else 0))


def getconf_vector(key, unset, vals, seg="whole", rng=None, noise="none", api="dict"):
    run = cc.Run(wrap=False)
    p = run.proto
    fired = []
    broke = _noise(p, noise, "before")
    def issue(_=None):
        if api == "single":
            p.get_conf_single(key).addBoth(_single(fired, key))
        else:
            p.get_conf(key).addBoth(fired.append)
    if noise == "spoiled@before":
        for conn in (p, cc.Run(wrap=False).proto):
            got = []
            (conn.get_conf_single(key) if api == "single" else conn.get_conf(key)).addBoth(got.append)
            if unset:
                w0 = ["250 %s" % key]
            else:
                w0 = ["250%s%s=%s" % (" " if i == len(vals) - 1 else "-", key, v) for i, v in enumerate(vals)]
            conn.dataReceived("".join(w + "\r\n" for w in w0).encode("latin-1"))
            if got:
                _spoil(got[0])
    if noise == "fallback@before":
        broke = broke or _fallback(p, issue)
    else:
        issue()
    broke = broke or _noise(p, noise, "during")
    if unset:
        wire = ["250 %s" % key]
    else:
        wire = ["250%s%s=%s" % (" " if i == len(vals) - 1 else "-", key, v) for i, v in enumerate(vals)]
    data = "".join(w + "\r\n" for w in wire).encode("latin-1")
    cut = _cut(noise, data)
    try:
        _deliver(p, data[:len(data) - cut], seg, rng)
        if cut:
            p.connectionLost(failure.Failure(error.ConnectionDone()))
    except Exception:
        fired.append(failure.Failure())
    res = fired[0] if fired else None
    if broke is not None:
        res = broke
    return dict(p="C13", cmd="GETCONF", key=b(key), unset=unset, vals=[b(v) for v in vals], cut=cut,
                wire=[b(w) for w in wire], res=_result(res, [key]), seg=seg, noise=noise, kvs=[], api=api)


def words(alpha, n):
    for k in range(n + 1):
        for t in itertools.product(alpha, repeat=k):
            yield "".join(t)
