"""C16: relay view equals the latest consensus document (spec/Consensus*.tla)."""
import json
import random

import common
import pipeline
import tlc
import cons

ASSUME = [
    "in every other execution the bootstrap's GETINFO entry-guards answer names two relays of the first document (they may leave the "
    "consensus later like any other relay)",
    "in every third execution the second document is published by Tor right after it acknowledged the NEWCONSENSUS subscription, i.e. "
    "while the bootstrap still has requests outstanding; the view for the first document is observed at that very moment",
    "documents are rendered by the harness as r / a / s / w / p lines (a, w, p optional, in dir-spec order) and delivered as GETINFO ns/all "
    "at bootstrap, then as 650+NEWCONSENSUS data blocks; relay order within a document is fixed",
    "identity conversion (base64 <-> $hex) is compared with the harness's own base64/binascii arithmetic over boundary and random "
    "digests: this sub-claim is decided by the conformance oracle, not by TLC",
    "behaviours are produced by a seeded random document generator (a TLC -simulate step would have to enumerate ~10^9 documents); the "
    "bounded model is checked exhaustively by TLC and every recorded execution is validated against ConsensusTrace",
    "lookup by a non-unique nickname 'does not work' if it yields no relay (None or KeyError)",
    "between documents relays are looked up by identity ($hex, $hex~nick, $hex=nick) or named in a circuit event's path, whether or "
    "not the latest document lists them; the view must not change",
]


def run(pid, tier, seed):
    rep = common.Report(pid, tier, seed)
    rep.assumptions = list(ASSUME)
    pipeline.design_check(rep, "Consensus_MC", ["Consensus_MC_quick"] if tier == "quick" else ["Consensus_MC_quick", "Consensus_MC_thorough"],
                          timeout=300 if tier == "quick" else 1800)
    rng = random.Random(seed)
    traces, seen = [], set()
    for i in range(500 if tier == "quick" else 8000):
        nicks = ("n1", "n2", "n3") if i % 3 == 0 else ("n1", "n2") if i % 3 == 1 else ("n1",)
        s = []
        for _ in range(rng.randint(1, 5 if tier == "quick" else 8)):
            s.append(dict(a="Document", d=cons.rand_doc(rng, nicks)))
            if rng.random() < 0.5:
                # relays are looked up / named in circuit paths between documents
                rs = [r for r in cons.RELAYS if rng.random() < 0.6] or ["ra"]
                s.append(dict(a="Lookup", form=rng.choice(["hex", "tilde", "eq", "circ"]), rs=rs, d=s[-1]["d"]))
        # in every third execution the second document arrives while the bootstrap is still running
        # in every other execution Tor names two relays of the first document as its entry guards when the bootstrap asks
        traces.append(cons.replay(s, seed * 100000 + i, early=(i % 3 == 1), eg=(i % 2 == 1)))
        if len(s) >= 2:
            seen.add(common.digest(s))
    rep.cov["evaluations"] = len(traces)
    rep.cov["distinct_nontrivial"] = len(seen)
    rep.cov["rule"] = ("sequences of 1..8 documents over a pool of 4 relays (boundary / random identity digests): per relay present?, "
                       "nickname from 1-3 names (duplicates), address, flag subset of {Guard, Authority}, 0-2 'a' lines, optional 'w', "
                       "optional 'p'; distinct by hash; non-trivial = at least one replacement document")
    known = dict((f["id"], f) for f in common.open_findings(pid))
    ok = pipeline.validate(rep, pid, "Consensus", "ConsensusTrace", "ConsensusTrace.cfg", traces, chunk=250, known=known,
                           payload=lambda t: dict(script=pipeline.strip_obs(t), salt=t["salt"], early=t["early"], eg=t["eg"]))
    rep.cov["samples"] = [dict(steps=t["steps"][:2]) for t in ok[:1]]
    return rep.finish()


def replay(pid, path):
    p = json.load(open(path))
    t = cons.replay(p["script"], p["salt"], p.get("early", False), p.get("eg", False))
    res, r = tlc.validate_traces("ConsensusTrace", "ConsensusTrace.cfg", [t])
    x = res[0]
    known = set(f["id"] for f in common.open_findings(pid))
    print("replay: matched %d of %d steps, deviations %s" % (x["matched"], x["wanted"], x["devs"]))
    if x["matched"] != x["wanted"] or (set(x["devs"]) - known):
        print("VIOLATION property=%s replay=%s" % (pid, path))
        return 1
    return 0
