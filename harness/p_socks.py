"""C05: SOCKS5 client hand-over (spec/Socks*.tla)."""
import json
import random

import tlc
import common
import pipeline
import sk

ASSUME = [
    "in every third execution a byte of application data in the model stands for 150 bytes on the wire (segments that carry the end of "
    "the reply together with several hundred bytes of application data)",
    "every other CONNECT execution uses an application protocol that writes a byte when its connection is made; the harness checks "
    "that this byte follows the complete SOCKS request on the wire",
    "byte content is compared by the harness (application bytes received must equal the corresponding slice of the stream); the model tracks positions/counts",
    "an exception escaping dataReceived is followed by connectionLost, as Twisted's reactor would do",
    "the application's connected-callback may cause further bytes to arrive while it runs (DeliverNested)",
    "some executions run over a transport that reports the loss of the connection from inside loseConnection() (sync: the TLC-generated "
    "behaviours that chose it, and every scenario delivered whole): the outcome reported first is the one that counts",
    "while relaying, the application's dataReceived may cause further bytes to arrive while it runs (DeliverReentrant): they are relayed "
    "in order, none waits for a later segment",
    "Tor never answers CONNECT with a domain-typed reply and sends nothing after a RESOLVE/RESOLVE_PTR answer (environment)",
    "the time at which a *failure* reply is reported is left open between 'reply code received' and 'reply complete' (the statement only fixes the outcome)",
    "the SOCKS connection is a StringTransport reached through a fake proxy endpoint; TorSocksEndpoint.connect / socks.resolve / socks.resolve_ptr are the entry points",
]
QUICK_CODES = [0, 1, 4, 5, 8, 9, 255]


def build_scripts(tier, seed, rep):
    rng = random.Random(seed)
    codes = QUICK_CODES if tier == "quick" else list(range(256))
    scens = sk.scenarios(codes, napps=(0, 3) if tier == "quick" else (0, 1, 5))
    jobs = []
    for sc in scens:
        n = sk.total(sc)
        success = sc["mrep"] == "ok" and sc["rver"] and sc["code"] == 0 and sc["atyp"] != "unk"
        modes = ["whole", "bytes", "cut1", "rand"]
        if tier == "thorough" and (success or sc["code"] in QUICK_CODES):
            modes.append("cut2")
        if sc["alen"] > 3:
            modes = ["whole", "rand", "longcut"]      # long names: the cuts around the length byte, not every cut
        for mode in modes:
            for sizes in sk.chunkings(n, mode, rng):
                script = [dict(a="Deliver", n=k) for k in sizes]
                tail = []
                if success and sc["req"] == "CONNECT":
                    tail.append(dict(a="AppWrite"))
                tail.append(dict(a="Disconnect"))
                jobs.append((sc, script + tail, mode))
        # over a transport that reports the loss from inside loseConnection(): the whole stream in one segment (a failure
        # makes the client hang up, and with that the connection is gone), then the application / the peer closes
        if success and sc["req"] == "CONNECT":
            jobs.append((sc, [dict(a="Deliver", n=n), dict(a="AppWrite"), dict(a="AppClose")], "sync"))
        elif success:
            jobs.append((sc, [dict(a="Deliver", n=n), dict(a="Disconnect")], "sync"))
        else:
            jobs.append((sc, [dict(a="Deliver", n=n)], "sync"))
        if success and sc["req"] == "CONNECT" and sc["napp"] > 1:
            # the application's "connected" callback makes more bytes arrive while it runs; the success segment carries
            # none / some of the application bytes already
            end = n - sc["napp"]
            for lead in ([1] * (end - 1), [end - 1] if end > 1 else []):
                for carried in range(0, sc["napp"]):
                    for k in range(1, sc["napp"] - carried + 1):
                        script = [dict(a="Deliver", n=x) for x in lead] + [dict(a="DeliverNested", n=1 + carried, k=k)]
                        rest = sc["napp"] - carried - k
                        if rest:
                            script.append(dict(a="Deliver", n=rest))
                        jobs.append((sc, script + [dict(a="AppWrite"), dict(a="Disconnect")], "nested"))
        if success and sc["req"] == "CONNECT" and sc["napp"] > 1:
            # while relaying: the application's dataReceived makes the peer's next bytes arrive while it runs
            end = n - sc["napp"]
            for first in range(1, sc["napp"]):
                for k in range(1, sc["napp"] - first + 1):
                    script = [dict(a="Deliver", n=end), dict(a="DeliverReentrant", n=first, k=k)]
                    rest = sc["napp"] - first - k
                    tail = [dict(a="Disconnect")] if rest == 0 else [dict(a="Deliver", n=rest), dict(a="Disconnect")]
                    jobs.append((sc, script + tail, "reentrant"))
        if success and sc["req"] == "CONNECT" and sc["napp"] > 0:
            # the application asks to close its transport (e.g. after a QUIT) while the peer's last bytes are still arriving
            end = n - sc["napp"]
            for first in (end, 1):
                script = ([dict(a="Deliver", n=first)] if first == end else [dict(a="Deliver", n=1)] * end)
                script += [dict(a="AppClose")] + [dict(a="Deliver", n=1)] * sc["napp"] + [dict(a="Disconnect")]
                jobs.append((sc, [dict(x) for x in script], "appclose"))
        # disconnect at every byte boundary
        if tier == "thorough" or sc["code"] in (0, 5) or sc["mrep"] != "ok":
            for i in range(0, n + 1):
                script = [dict(a="Deliver", n=1)] * i + [dict(a="Disconnect")]
                jobs.append((sc, [dict(x) for x in script], "disc@%d" % i))
    # behaviours generated by TLC from the model (scenario + chunking + disconnect/app-write placement)
    num = 400 if tier == "quick" else 4000
    sims, out, wall = tlc.simulate("Socks_Gen", "Socks_Gen.cfg", num, 40, seed, allvars=True)
    if not sims:
        rep.broken.append("TLC generated no behaviours:\n" + out[-800:])
    for st in sims:
        sc = dict(st["scen"])
        sc.pop("failAt", None)
        jobs.append((sc, st["hist"], "tlc-sync" if st.get("sync") else "tlc"))
    rep.cov["tlc_generated_behaviours"] = len(sims)
    rep.cov["scenarios"] = len(scens)
    return jobs


def strip(t):
    return dict(scen=t["scen"], steps=[dict((k, v) for k, v in e.items() if k != "obs") for e in t["steps"]])


def run(pid, tier, seed):
    rep = common.Report(pid, tier, seed)
    rep.assumptions = list(ASSUME)
    for name in (["Socks_MC_quick", "Socks_MC_loose"] if tier == "quick" else
                 ["Socks_MC_quick", "Socks_MC_loose", "Socks_MC_thorough"]):
        rep.tlc(name, tlc.run_tlc("Socks_MC", name + ".cfg", workers=16, timeout=600))
    r = tlc.run_tlc("Socks_MC", "Socks_Probe.cfg", workers=4, timeout=120)
    rep.cov["tlc_runs"].append(dict(name="Socks_Probe", expected="counterexample", got=r.invariant_violated))
    if not r.invariant_violated:
        rep.broken.append("Socks_Probe: coalesced hand-over should be reachable")
    jobs = build_scripts(tier, seed, rep)
    traces, seen = [], set()
    for k, (sc, script, mode) in enumerate(jobs):
        # every other CONNECT execution has an application protocol that speaks first (writes when its connection is made)
        # in every third execution each byte of application data in the model stands for 150 bytes on the wire
        t = sk.replay(sc, script, hello=(sc["req"] == "CONNECT" and k % 2 == 1), scale=(150 if k % 3 == 2 else 1),
                      sync=(mode in ("tlc-sync", "sync")))
        t["mode"] = mode
        traces.append(t)
        seen.add(common.digest([sc, script]))
    rep.cov["evaluations"] = len(traces)
    rep.cov["distinct_nontrivial"] = len(seen)
    rep.cov["rule"] = ("scenario (request type x method reply x reply version/code/address type x application bytes) x chunking of the "
                       "server stream (whole, byte-at-a-time, every single cut, random%s, disconnect at every byte boundary) plus "
                       "TLC -simulate behaviours of Socks_Gen; every one is distinct by (scenario, script) hash and exercises the "
                       "hand-over machine" % (", every pair of cuts" if tier == "thorough" else ""))
    res, runs = tlc.validate_parallel("SocksTrace", "SocksTrace.cfg", traces, nproc=14, chunk=600)
    pipeline.selftest_from(rep, "SocksTrace", "SocksTrace.cfg", traces, res)
    for r in runs:
        rep.cov["states"] += r.distinct
        rep.cov["transitions"] += r.generated
    if any(x["matched"] < 0 for x in res):
        rep.broken.append("trace validation produced no verdict:\n" + runs[0].out[-1500:])
    bad = [i for i, x in enumerate(res) if x["matched"] != x["wanted"]]
    if bad and not rep.broken:
        sub = [traces[i] for i in bad[:100]]
        env, _ = tlc.validate_parallel("SocksTrace", "SocksTrace.cfg", sub, nproc=8, extra_env={"VMODE": "env"})
        n = 0
        for i, e in zip(bad, env):
            x = res[i]
            if e["matched"] != e["wanted"] and e["matched"] <= x["matched"]:
                rep.broken.append("illegal stimulus (harness bug) at step %d: %s" % (e["matched"] + 1, json.dumps(strip(traces[i]))[:500]))
                continue
            if n < 5:
                k = x["matched"]
                step = traces[i]["steps"][k]
                rep.violation("real execution is not a behaviour of Socks: scenario %s, step %d (%s), observed %s"
                              % (json.dumps(traces[i]["scen"]), k + 1, json.dumps(dict((a, b) for a, b in step.items() if a != "obs")),
                                 json.dumps(step["obs"])),
                              dict(property=pid, module="Socks", trace=strip(traces[i]), matched=k, failing_step=step,
                                   errors=traces[i].get("errors")))
                n += 1
        rep.cov["rejected_traces"] = len(bad)
    ok = [t for t, x in zip(traces, res) if x["matched"] == x["wanted"]]
    rep.cov["traces_validated_against_impl"] = len(ok)
    succ = [t for t in ok if t["steps"] and t["steps"][-1]["obs"]["app"] and len(t["steps"]) in (3, 4, 5)]
    rep.cov["samples"] = [dict(strip(t), final_obs=t["steps"][-1]["obs"]) for t in (succ[:1] + ok[:1])]
    return rep.finish()


def replay(pid, path):
    p = json.load(open(path))
    t = sk.replay(p["trace"]["scen"], p["trace"]["steps"], p["trace"].get("hello", False), p["trace"].get("scale", 1), p["trace"].get("sync", False))
    res, r = tlc.validate_traces("SocksTrace", "SocksTrace.cfg", [t])
    x = res[0]
    print("replay: matched %d of %d steps" % (x["matched"], x["wanted"]))
    if x["matched"] != x["wanted"]:
        print("VIOLATION property=%s replay=%s" % (pid, path))
        print("  step %d: %s" % (x["matched"] + 1, json.dumps(t["steps"][x["matched"]])[:600]))
        return 1
    return 0
