"""C09: replay AttachM behaviours into a real TorState (attacher logic)."""
import os
import sys

REPO = os.environ.get("VERIF_REPO", "/repo")
sys.path.insert(0, REPO)

from twisted.internet import defer                                   # noqa: E402
from twisted.internet.address import IPv4Address                     # noqa: E402
from twisted.python import failure, log                              # noqa: E402
from twisted.test import proto_helpers                               # noqa: E402
from zope.interface import implementer                               # noqa: E402

import txtorcon                                                       # noqa: E402
from txtorcon import TorControlProtocol, TorState                     # noqa: E402
from txtorcon import circuit as circuit_mod                           # noqa: E402
from txtorcon.circuit import Circuit, TorCircuitEndpoint              # noqa: E402
from txtorcon.interface import IStreamAttacher                        # noqa: E402
from txtorcon.attacher import PriorityAttacher                        # noqa: E402

import simtor                                                         # noqa: E402
import tsm                                                            # noqa: E402  (line rendering helpers)

assert os.path.abspath(txtorcon.__file__).startswith(os.path.abspath(REPO)), txtorcon.__file__


NONCIRC = [0]


@implementer(IStreamAttacher)
class Scripted(object):
    """answers as the stimulus script says"""
    def __init__(self, run):
        self.run = run
        self.next = None
        self.asked = []

    def attach_stream_failure(self, stream, fail):
        return None

    def attach_stream(self, stream, circuits):
        self.asked.append(stream.id)
        ans, mode = self.next
        if mode == "def":
            d = defer.Deferred()
            self.run.pending[stream.id] = (d, ans)
            return d
        val = self.run.answer_object(ans)
        if mode == "coro":
            async def coro():
                return val
            return coro()
        return val


@implementer(IStreamAttacher)
class SubScripted(object):
    """a sub-attacher of the PriorityAttacher: answers as the script says and records that it was consulted"""
    def __init__(self, run, name):
        self.run, self.name = run, name
        self.next = "none"

    def attach_stream_failure(self, stream, fail):
        return None

    def attach_stream(self, stream, circuits):
        self.run.cons.append(self.name)
        return self.run.answer_object(self.next)


class FakeTarget(object):
    def __init__(self):
        self.addr_d = defer.Deferred()

    def _get_address(self):
        return self.addr_d

    connected = False

    def connect(self, factory):
        self.connected = True
        return defer.succeed(object())


class Run(object):
    def __init__(self):
        circuit_mod._get_circuit_attacher.attacher = None
        self.proto = TorControlProtocol()
        self.tr = proto_helpers.StringTransport()
        self.sim = simtor.SimTor(self.proto, self.tr)
        self.sim.info.update({"ns/all": [], "circuit-status": "", "stream-status": "", "address-mappings/all": "",
                              "entry-guards": "", "process/pid": "1"})
        self.holding = False
        self.sim.hold = lambda line: self.holding and "__LeaveStreamsUnattached" in line
        self.proto.makeConnection(self.tr)
        self.sim.pump()
        self.state = TorState(self.proto)
        self.sim.pump()
        assert self.state.post_bootstrap.called
        self.reactor = proto_helpers.MemoryReactorClock()
        self.A, self.B = Scripted(self), Scripted(self)
        self.P = PriorityAttacher()
        self.subs = dict((n, SubScripted(self, n)) for n in ("x", "y", "z"))
        self.cons = []
        self.pending = {}
        self.reps = {1: 0, 2: 0, 3: 0}
        self.cur_stream = None
        self.via = {"k1": dict(st="idle"), "k2": dict(st="idle")}
        self.nlog = len(self.sim.log)
        self.exc = False
        self.errors = []
        self.unknown = Circuit(self.state)
        self.unknown.id = 77
        self.unknown.state = "BUILT"
        run = self

        def attacher_error(fail):
            # reports end up here (tests wrap the same hook); which stream is known from the failure's context
            run.reps[run.cur_stream] = run.reps.get(run.cur_stream, 0) + 1
            return None
        self.state._attacher_error = attacher_error

    def answer_object(self, ans):
        if ans == "none":
            return None
        if ans == "dna":
            return TorState.DO_NOT_ATTACH
        if ans == "noncirc":
            # something that is not a circuit, of whatever truth value
            NONCIRC[0] += 1
            return ["not a circuit", 0, "", [], False, {}, 7, ()][NONCIRC[0] % 8]
        if ans == "unknown":
            return self.unknown
        cid = 1 if ans == "c1" else 2
        if cid in self.state.circuits:
            return self.state.circuits[cid]
        return self.gone.get(cid, self.unknown)

    gone = {}

    def step(self, e):
        a = e["a"]
        self.cons = []
        # rf: Tor refuses the ATTACHSTREAM sent in this step
        self.sim.handlers["ATTACHSTREAM"] = (lambda line: b"552 Unknown circuit\r\n") if e.get("rf") else (lambda line: None)
        try:
            if a == "CircStep":
                c, to = e["c"], e["to"]
                if to == "BUILDING":
                    line = "%d LAUNCHED BUILD_FLAGS=NEED_CAPACITY PURPOSE=GENERAL" % c
                elif to == "BUILT":
                    line = "%d BUILT %s BUILD_FLAGS=NEED_CAPACITY PURPOSE=GENERAL" % (c, tsm.path_text(["r1", "r2"], c))
                else:
                    if c in self.state.circuits:
                        self.gone = dict(self.gone)
                        self.gone[c] = self.state.circuits[c]
                    line = "%d CLOSED %s PURPOSE=GENERAL REASON=FINISHED" % (c, tsm.path_text(["r1", "r2"], c))
                self.sim.event("650 CIRC %s\r\n" % line)
            elif a == "SetAttacher":
                who = e["who"]
                obj = {"A": self.A, "B": self.B, "P": self.P, "none": None}[who]
                self.holding = bool(e.get("late"))
                try:
                    self.state.set_attacher(obj, self.reactor)
                except RuntimeError:
                    pass       # refusal of a second, different attacher
                self.sim.pump()
                self.holding = False
            elif a == "NewStream":
                s = e["s"]
                self.cur_stream = s
                self.A.next = (e["ans"], e["mode"])
                tgt = {"normal": "www.example.com:80", "exit": "www.example.com.abcd.exit:80", "resolve": "www.example.com:0"}[e["kind"]]
                status = "NEWRESOLVE" if e["kind"] == "resolve" else "NEW"
                src = "127.0.0.1:%d" % e["p"] if e["p"] < 5000 else "10.1.2.3:%d" % (e["p"] - 1000)
                self.sim.event("650 STREAM %d %s 0 %s SOURCE_ADDR=%s PURPOSE=USER\r\n" % (s, status, tgt, src))
            elif a == "AddSub":
                self.P.add_attacher(self.subs[e["x"]], e["prio"])
            elif a == "RemSub":
                self.P.remove_attacher(self.subs[e["x"]])
            elif a == "NewStreamP":
                s = e["s"]
                self.cur_stream = s
                for n, sub in self.subs.items():
                    sub.next = e["sa"][n]
                tgt = {"normal": "www.example.com:80", "exit": "www.example.com.abcd.exit:80", "resolve": "www.example.com:0"}[e["kind"]]
                status = "NEWRESOLVE" if e["kind"] == "resolve" else "NEW"
                src = "127.0.0.1:%d" % e["p"] if e["p"] < 5000 else "10.1.2.3:%d" % (e["p"] - 1000)
                self.sim.event("650 STREAM %d %s 0 %s SOURCE_ADDR=%s PURPOSE=USER\r\n" % (s, status, tgt, src))
            elif a in ("StreamFailed", "LateClosed"):
                s = e["s"]
                self.cur_stream = s
                self.A.next = ("none", "imm")
                word, reason = ("FAILED", "END") if a == "StreamFailed" else ("CLOSED", "DONE")
                self.sim.event("650 STREAM %d %s 0 www.example.com:80 REASON=%s\r\n" % (s, word, reason))
            elif a == "Progress":
                s = e["s"]
                self.cur_stream = s
                self.A.next = ("none", "imm")
                if e["k"] == "REMAP":
                    self.sim.event("650 STREAM %d REMAP 0 93.184.216.34:80 SOURCE=CACHE\r\n" % s)
                else:
                    self.sim.event("650 STREAM %d CONTROLLER_WAIT 0 www.example.com:80\r\n" % s)
            elif a == "Answer":
                s = e["s"]
                self.cur_stream = s
                d, ans = self.pending.pop(s)
                d.callback(self.answer_object(ans))
                self.sim.pump()
            elif a == "ViaConnect":
                k = e["k"]
                tgt = FakeTarget()
                ep = TorCircuitEndpoint(self.reactor, self.state, self.state.circuits[e["c"]], tgt)
                v = self.via[k] = dict(st="wait", tgt=tgt)
                self.holding = bool(e.get("late"))
                d = ep.connect(object())
                self.sim.pump()
                self.holding = False

                def ok(_, v=v):
                    v["st"] = "done"

                def err(f, v=v):
                    v["st"] = "failed"
                d.addCallbacks(ok, err)
            elif a == "ConfAck":
                self.sim.release()
            elif a == "ViaAddr":
                v = self.via[e["k"]]
                v["addr"] = True
                v["st"] = "reg"
                v["tgt"].addr_d.callback(IPv4Address("TCP", "127.0.0.1", e["p"]))
            else:
                raise ValueError(a)
        except Exception:
            self.exc = True
            self.errors.append(failure.Failure().getTraceback())
        return self.obs()

    def obs(self):
        wire = []
        for line in self.sim.log[self.nlog:]:
            w = line.split()
            if w[0] == "ATTACHSTREAM":
                wire.append(["ATTACHSTREAM", int(w[1]), int(w[2])])
            elif w[0] == "SETCONF" and "__LeaveStreamsUnattached" in line:
                wire.append(["SETCONF", 0, int(line.split("=")[1].strip('"'))])
        self.nlog = len(self.sim.log)
        a = self.state._attacher
        att = "none" if a is None else "A" if a is self.A else "P" if a is self.P else "V" if a is circuit_mod._get_circuit_attacher.attacher else "?"
        via = []
        for k in ("k1", "k2"):
            v = self.via[k]
            # "waitaddr" = the underlying SOCKS connect has been started; before that the connection waits
            via.append(("waitaddr" if v["tgt"].connected else "wait") if v["st"] == "wait" else v["st"])
        return dict(wire=wire, att=att, cons=list(self.cons), rep=[self.reps[1], self.reps[2], self.reps[3]], via=via, exc=self.exc)


def replay(script):
    run = Run()
    steps = []
    for e in script:
        s = dict(e)
        s["obs"] = run.step(e)
        steps.append(s)
        if run.exc:
            break
    return dict(steps=steps, errors=run.errors[:2])
