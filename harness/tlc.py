"""Run TLC and parse what it printed.  Shared by every check.

All scratch (copied spec files, TLC metadir, generated behaviours, traces)
lives in a per-process temporary directory outside /repo and /verif that is
removed at exit.
"""
import atexit
import json
import os
import re
import shutil
import subprocess
import tempfile
import time

HERE = os.path.dirname(os.path.abspath(__file__))
VERIF = os.path.dirname(HERE)
SPEC = os.path.join(VERIF, "spec")
JAR = "/opt/veriftools/tla/tla2tools.jar:/opt/veriftools/tla/CommunityModules-deps.jar"

_scratch = None


def scratch():
    global _scratch
    if _scratch is None:
        base = os.environ.get("TMPDIR", "/tmp")
        _scratch = tempfile.mkdtemp(prefix="verif-", dir=base)
        atexit.register(shutil.rmtree, _scratch, True)
    return _scratch


class TLCResult(object):
    def __init__(self, out, rc, wall):
        self.out = out
        self.rc = rc
        self.wall = wall
        m = re.search(r"(\d+) states generated, (\d+) distinct states found", out)
        self.generated = int(m.group(1)) if m else 0
        self.distinct = int(m.group(2)) if m else 0
        m = re.search(r"depth of the complete state graph search is (\d+)", out)
        self.depth = int(m.group(1)) if m else 0
        self.invariant_violated = None
        m = re.search(r"Invariant (\S+) is violated", out)
        if m:
            self.invariant_violated = m.group(1)
        m = re.search(r"Action property (\S+) is violated", out)
        if m:
            self.invariant_violated = m.group(1)
        m = re.search(r"Temporal propert(?:y|ies)\b([^\n]*?)\s*(?:was|were) violated", out)
        if m and not self.invariant_violated:
            self.invariant_violated = ("temporal " + m.group(1).strip()).strip()
        self.deadlock = "Deadlock reached" in out
        self.error = ("Error:" in out) and not self.invariant_violated and not self.deadlock
        self.ok = (rc == 0) and ("Model checking completed. No error has been found" in out
                                 or "Finished computing initial states" in out and "No error" in out)
        self.timed_out = "TLC-TIMEOUT" in out
        if self.timed_out and not self.generated:
            ms = re.findall(r"([\d,]+) states generated \([\d,]+ s/min\), ([\d,]+) distinct states found", out)
            if ms:
                self.generated = int(ms[-1][0].replace(",", ""))
                self.distinct = int(ms[-1][1].replace(",", ""))
            ds = re.findall(r"Progress\((\d+)\)", out)
            if ds:
                self.depth = int(ds[-1])
        self.coverage = {}
        # -coverage 1 output:  <Action line 12, col 1 to line 14, col 20 of module M>: 5:12
        for m in re.finditer(r"<(\w+) line \d+, col \d+ to line \d+, col \d+ of module (\w+)>: (\d+):(\d+)", out):
            self.coverage[m.group(1)] = max(self.coverage.get(m.group(1), 0), int(m.group(4)))

    def printed(self):
        """values printed with PrintT, one per element, parsed by bracket
        matching (robust against interleaving with other output lines)"""
        return self.out


def run_tlc(module, cfg, workers=16, env=None, extra=(), timeout=1200, files=(), deadlock=False,
            coverage=False, simulate=None, depth=None, seed=None, dfs=False):
    """Run TLC on spec/<module>.tla with spec/<cfg> in a fresh scratch dir."""
    d = tempfile.mkdtemp(prefix="tlc-", dir=scratch())
    for f in os.listdir(SPEC):
        if f.endswith(".tla") or f.endswith(".cfg"):
            shutil.copy(os.path.join(SPEC, f), d)
    for f in files:
        shutil.copy(f, d)
    cmd = ["java", "-XX:+UseParallelGC", "-Xmx8g", "-Xss512m", "-Djava.io.tmpdir=" + d]
    if dfs:
        cmd.append("-Dtlc2.tool.queue.IStateQueue=StateDeque")
    cmd += ["-cp", JAR, "tlc2.TLC", "-workers", str(workers), "-metadir", os.path.join(d, "meta"),
            "-noGenerateSpecTE", "-config", cfg]
    if not deadlock:
        cmd.append("-deadlock")      # -deadlock switches deadlock checking OFF
    if coverage:
        cmd += ["-coverage", "1"]
    if simulate is not None:
        cmd += ["-simulate", "num=%d" % simulate]
        if depth is not None:
            cmd += ["-depth", str(depth)]
    if seed is not None:
        cmd += ["-seed", str(seed)]
    cmd += list(extra)
    cmd.append(module)
    e = dict(os.environ)
    e.pop("JAVA_TOOL_OPTIONS", None)
    if env:
        e.update(env)
    t0 = time.time()
    try:
        p = subprocess.run(cmd, cwd=d, env=e, stdout=subprocess.PIPE, stderr=subprocess.STDOUT,
                           timeout=timeout, universal_newlines=True)
        out, rc = p.stdout, p.returncode
    except subprocess.TimeoutExpired as ex:
        out = (ex.stdout or "")
        if isinstance(out, bytes):
            out = out.decode("utf-8", "replace")
        out += "\nTLC-TIMEOUT\n"
        rc = 124
    r = TLCResult(out, rc, time.time() - t0)
    r.dir = d
    return r


def parse_tla_value(s):
    """Parse the textual form TLC prints for a value made of tuples <<..>>,
    strings, ints, booleans, sets {..} and records [a |-> v, ..] into Python
    (tuples->list, sets->list, records->dict)."""
    pos = [0]

    def ws():
        while pos[0] < len(s) and s[pos[0]] in " \t\r\n":
            pos[0] += 1

    def val():
        ws()
        c = s[pos[0]]
        if s.startswith("<<", pos[0]):
            pos[0] += 2
            out = []
            ws()
            if s.startswith(">>", pos[0]):
                pos[0] += 2
                return out
            while True:
                out.append(val())
                ws()
                if s.startswith(">>", pos[0]):
                    pos[0] += 2
                    return out
                assert s[pos[0]] == ",", (s[pos[0]:pos[0] + 20])
                pos[0] += 1
        if c == "{":
            pos[0] += 1
            out = []
            ws()
            if s[pos[0]] == "}":
                pos[0] += 1
                return out
            while True:
                out.append(val())
                ws()
                if s[pos[0]] == "}":
                    pos[0] += 1
                    return out
                assert s[pos[0]] == ","
                pos[0] += 1
        if c == "[":
            pos[0] += 1
            out = {}
            while True:
                ws()
                m = re.match(r"(\w+)\s*\|->", s[pos[0]:])
                assert m, s[pos[0]:pos[0] + 30]
                pos[0] += m.end()
                out[m.group(1)] = val()
                ws()
                if s[pos[0]] == "]":
                    pos[0] += 1
                    return out
                assert s[pos[0]] == ","
                pos[0] += 1
        if c == '"':
            j = pos[0] + 1
            buf = []
            while s[j] != '"':
                if s[j] == "\\":
                    j += 1
                buf.append(s[j])
                j += 1
            pos[0] = j + 1
            return "".join(buf)
        m = re.match(r"-?\d+", s[pos[0]:])
        if m:
            pos[0] += m.end()
            return int(m.group(0))
        m = re.match(r"TRUE|FALSE", s[pos[0]:])
        if m:
            pos[0] += m.end()
            return m.group(0) == "TRUE"
        raise ValueError("cannot parse at %r" % s[pos[0]:pos[0] + 40])

    return val()


def write_ndjson(path, rows):
    with open(path, "w") as f:
        for r in rows:
            f.write(json.dumps(r, separators=(",", ":")) + "\n")


def validate_traces(trace_module, cfg, traces, timeout=1800, extra_env=None):
    """Batched trace validation.  `traces` is a list of dicts each with a
    'steps' list.  The trace module must print, from its POSTCONDITION, one
    line per trace:   TRACE <tid> <matched> <wanted> <devs>
    (via PrintT(<<"TRACE", tid, matched, wanted, devs>>)).
    Returns (list of per-trace dicts, TLCResult)."""
    d = scratch()
    path = os.path.join(d, "traces-%d-%d.ndjson" % (os.getpid(), int(time.time() * 1e6) % 10**9))
    write_ndjson(path, traces)
    env = {"TRACE_FILE": path}
    if extra_env:
        env.update(extra_env)
    r = run_tlc(trace_module, cfg, workers=1, env=env, timeout=timeout)
    res = {}
    for m in re.finditer(r'<<\s*"TRACE",\s*(\d+),\s*(\d+),\s*(\d+),\s*(\{[^}]*\})\s*>>', r.out):
        res[int(m.group(1))] = dict(matched=int(m.group(2)), wanted=int(m.group(3)),
                                    devs=parse_tla_value(m.group(4)))
    out = []
    for i in range(1, len(traces) + 1):
        out.append(res.get(i, dict(matched=-1, wanted=len(traces[i - 1]["steps"]), devs=[])))
    try:
        os.unlink(path)
    except OSError:
        pass
    return out, r


def last_state(txt):
    """variables of the last state in a TLC trace file / error trace, as a dict"""
    idx = max(txt.rfind("\nSTATE_"), txt.rfind("\nState "))
    if idx < 0:
        return None
    body = txt[idx:]
    out = {}
    parts = re.split(r"(?:^|\n)\s*/\\ (\w+) = ", body)
    # parts: [junk, name1, val1, name2, val2, ...]
    for k in range(1, len(parts) - 1, 2):
        val = parts[k + 1]
        val = re.split(r"\n\s*\n|\n=====|\nSTATE_|\n\\\*", val)[0].strip()
        try:
            out[parts[k]] = parse_tla_value(val)
        except Exception:
            pass
    return out


def _simulate_one(module, cfg, num, depth, seed, var, timeout, allvars):
    d = tempfile.mkdtemp(prefix="sim-", dir=scratch())
    for f in os.listdir(SPEC):
        if f.endswith(".tla") or f.endswith(".cfg"):
            shutil.copy(os.path.join(SPEC, f), d)
    os.mkdir(os.path.join(d, "out"))
    cmd = ["java", "-XX:+UseParallelGC", "-Xmx4g", "-Djava.io.tmpdir=" + d, "-cp", JAR, "tlc2.TLC", "-workers", "1",
           "-metadir", os.path.join(d, "meta"), "-noGenerateSpecTE", "-deadlock", "-config", cfg,
           "-simulate", "file=%s,num=%d" % (os.path.join(d, "out", "b"), num), "-depth", str(depth),
           "-seed", str(seed), module]
    try:
        p = subprocess.run(cmd, cwd=d, stdout=subprocess.PIPE, stderr=subprocess.STDOUT,
                           timeout=timeout, universal_newlines=True)
        out = p.stdout
    except subprocess.TimeoutExpired as ex:
        out = ex.stdout or ""
        if isinstance(out, bytes):
            out = out.decode("utf-8", "replace")
    hists = []
    for f in sorted(os.listdir(os.path.join(d, "out"))):
        txt = open(os.path.join(d, "out", f)).read()
        st = last_state(txt)
        if st is None or var not in st:
            continue
        hists.append(st if allvars else st[var])
    shutil.rmtree(d, True)
    return hists, out


def simulate(module, cfg, num, depth, seed, var="hist", timeout=600, allvars=False, procs=8):
    """TLC -simulate behaviours; the request is split over several single-worker TLC processes with seeds
    seed, seed+1, ... (deterministic for a given seed and procs)"""
    import concurrent.futures as cf
    t0 = time.time()
    k = max(1, min(procs, num // 25))
    share = [num // k + (1 if i < num % k else 0) for i in range(k)]
    with cf.ThreadPoolExecutor(k) as ex:
        parts = list(ex.map(lambda i: _simulate_one(module, cfg, share[i], depth, seed + i, var, timeout, allvars), range(k)))
    hists, outs = [], []
    for h, o in parts:
        hists.extend(h)
        outs.append(o)
    return hists, "\n".join(outs), time.time() - t0


def validate_parallel(trace_module, cfg, traces, nproc=8, chunk=400, timeout=1800, extra_env=None):
    """validate many traces with several single-worker TLC processes"""
    import concurrent.futures as cf
    if not traces:
        return [], []
    n = max(1, min(nproc, (len(traces) + chunk - 1) // chunk))
    size = (len(traces) + n - 1) // n
    parts = [traces[i:i + size] for i in range(0, len(traces), size)]
    with cf.ThreadPoolExecutor(len(parts)) as ex:
        outs = list(ex.map(lambda p: validate_traces(trace_module, cfg, p, timeout, extra_env), parts))
    res, runs = [], []
    for r, t in outs:
        res.extend(r)
        runs.append(t)
    return res, runs


def cex_summary(out, var=None, last=1):
    """action names of a TLC counterexample and (optionally) one variable of the last states"""
    acts = re.findall(r"State \d+: <(\w+)[^>]*>", out)
    states = re.split(r"\nState \d+: ", out)
    tail = []
    for st in states[-last:]:
        tail.append(st[:3000])
    return acts, tail


def printed_values(out, tag):
    """all values printed as <<"tag", ...>> by PrintT, parsed by bracket matching"""
    vals = []
    pat = re.compile(r'<<\s*"%s",' % re.escape(tag))
    m = pat.search(out)
    i = m.start() if m else -1
    while i >= 0:
        depth, j = 0, i
        while j < len(out):
            if out.startswith("<<", j):
                depth += 1
                j += 2
                continue
            if out.startswith(">>", j):
                depth -= 1
                j += 2
                if depth == 0:
                    break
                continue
            if out[j] == '"':
                j += 1
                while out[j] != '"':
                    j += 2 if out[j] == "\\" else 1
            j += 1
        try:
            vals.append(parse_tla_value(out[i:j]))
        except Exception:
            pass
        m = pat.search(out, j)
        i = m.start() if m else -1
    return vals
