"""A scripted Tor control port: answers the commands a real TorControlProtocol
writes to its StringTransport, by command (not from a fixed script), from a
small state that the harness mutates.  Used by the TorState / TorConfig /
onion harnesses."""
import base64
import binascii


def relay_hex(n):
    return ("%02X" % n) * 20


def relay_b64(n):
    return base64.b64encode(binascii.unhexlify(relay_hex(n))).decode().rstrip("=")


class SimTor(object):
    def __init__(self, proto, transport):
        self.proto = proto
        self.tr = transport
        self.buf = b""
        self.log = []            # every command line received
        self.hold = None         # predicate(cmd) -> True: do not answer now (held commands answered by release())
        self.held = []
        self.info = {}           # GETINFO key -> list of lines (multi) or str (single)
        self.conf = {}           # GETCONF option -> list of values (or None for unset)
        self.handlers = {}       # command word -> function(line) -> reply bytes or None
        self.events = "CIRC STREAM NEWCONSENSUS ADDRMAP HS_DESC CONF_CHANGED STATUS_CLIENT"
        self.version = "0.4.8.0"

    # ---- reply rendering ----
    def info_reply(self, key):
        v = self.info.get(key)
        if v is None:
            return b"552 Unrecognized key \"%s\"\r\n" % key.encode()
        if isinstance(v, str):
            return ("250-%s=%s\r\n250 OK\r\n" % (key, v)).encode()
        out = "250+%s=\r\n" % key
        for l in v:
            out += ("." + l if l.startswith(".") else l) + "\r\n"
        out += ".\r\n250 OK\r\n"
        return out.encode()

    def answer(self, line):
        word = line.split(" ", 1)[0].upper()
        if word == "SETEVENTS":
            self.subscribed = tuple(line.split()[1:])
        if word in self.handlers:
            r = self.handlers[word](line)
            if r is not None:
                return r
        if word == "PROTOCOLINFO":
            return b"250-PROTOCOLINFO 1\r\n250-AUTH METHODS=NULL\r\n250-VERSION Tor=\"%s\"\r\n250 OK\r\n" % self.version.encode()
        if word == "AUTHENTICATE":
            return b"250 OK\r\n"
        if word == "GETINFO":
            key = line.split(" ", 1)[1]
            if key == "signal/names":
                return b"250-signal/names=RELOAD HUP SHUTDOWN NEWNYM\r\n250 OK\r\n"
            if key == "version":
                return ("250-version=%s\r\n250 OK\r\n" % self.version).encode()
            if key == "events/names":
                return ("250-events/names=%s\r\n250 OK\r\n" % self.events).encode()
            if key.startswith("ip-to-country"):
                return b"551 GeoIP data not loaded\r\n"
            return self.info_reply(key)
        if word == "GETCONF":
            key = line.split(" ", 1)[1]
            vals = self.conf.get(key.lower(), None)
            if vals is None:
                return ("250 %s\r\n" % key).encode()
            if not vals:
                return ("250 %s\r\n" % key).encode()
            out = ""
            for i, v in enumerate(vals):
                out += "250%s%s=%s\r\n" % (" " if i == len(vals) - 1 else "-", key, v)
            return out.encode()
        return b"250 OK\r\n"

    # ---- pumping ----
    def pump(self):
        """answer every command that has been written, in order; a held command blocks the ones behind it"""
        progress = True
        while progress:
            progress = False
            data = self.tr.value()
            if data:
                self.tr.clear()
                self.buf += data
            while b"\r\n" in self.buf and not self.held:
                line, self.buf = self.buf.split(b"\r\n", 1)
                line = line.decode("latin-1")
                self.log.append(line)
                if self.hold is not None and self.hold(line):
                    self.held.append(line)
                    break
                self.proto.dataReceived(self.answer(line))
                progress = True

    def release(self, reply=None):
        """answer the oldest held command"""
        line = self.held.pop(0)
        self.proto.dataReceived(reply if reply is not None else self.answer(line))
        self.pump()

    strict_events = False      # True: like Tor, send an event only if the last SETEVENTS this connection got lists it
    subscribed = ()

    def event(self, text):
        if self.strict_events:
            name = text[4:].split()[0].split("\r")[0]
            if name not in self.subscribed:
                return
        self.proto.dataReceived(text.encode("latin-1"))
        self.pump()
