SPECIFICATION Spec
CONSTANTS
  Circs <- C2
  Streams <- S2
  Conns <- K1
  Ports <- P2
  MaxSteps = 7
  MaxSubs = 0
INVARIANT TypeOK
INVARIANT ConsultedInOrder
INVARIANT ToldMatches
INVARIANT OneDecision
INVARIANT NothingForExit
INVARIANT ViaExact
INVARIANT Answered
INVARIANT ViaNeverRefused
