SPECIFICATION Spec
CONSTANTS
  Codes <- CodesQuick
  MaxApp = 3
  MaxChunk = 30
  Loose = FALSE
INVARIANT ProbeCoalesced
