---- MODULE Config_Gen ----
EXTENDS Config_MC
VARIABLE hist
H(r) == hist' = Append(hist, r)
Recs(chs) == [i \in 1..Len(chs) |-> [o |-> chs[i][1], v |-> chs[i][2]]]
GInit == Init /\ hist = <<>>
GNext ==
  \/ \E store \in Stores : Attach(store) /\ H([a |-> "Attach", store |-> store])
  \/ \E o \in Scalars, v \in SVals : Assign(o, <<v>>) /\ cnt.ops < MaxOps /\ H([a |-> "Assign", o |-> o, v |-> <<v>>])
  \/ \E o \in Lists, v \in UNION {[1..k -> Elems] : k \in 0..MaxLen} : Assign(o, v) /\ cnt.ops < MaxOps /\ H([a |-> "Assign", o |-> o, v |-> v])
  \/ \E o \in Lists, o2 \in Lists : AssignFrom(o, o2) /\ cnt.ops < MaxOps /\ H([a |-> "AssignFrom", o |-> o, from |-> o2])
  \/ \E o \in Lists : \E nv \in EditsOf(view[o]) : ListOp(o, nv) /\ cnt.ops < MaxOps /\ H([a |-> "ListOp", o |-> o, old |-> view[o], v |-> nv])
  \/ SaveSend /\ cnt.saves < MaxSaves /\ H([a |-> "SaveSend"])
  \/ SaveAck /\ H([a |-> "SaveAck"])
  \/ SaveReject /\ H([a |-> "SaveReject"])
  \/ \E chs \in Changes : OtherChange(chs) /\ cnt.evs < MaxEvents /\ H([a |-> "OtherChange", chs |-> Recs(chs)])
  \/ Deliver /\ H([a |-> "Deliver", chs |-> Recs(Head(evq))])
GSpec == GInit /\ [][GNext]_<<vars, hist>>
====
