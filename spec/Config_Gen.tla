---- MODULE Config_Gen ----
EXTENDS Config_MC
VARIABLE hist
H(r) == hist' = Append(hist, r)
GInit == Init /\ hist = <<>>
GNext ==
  \/ \E store \in Stores : Attach(store) /\ H([a |-> "Attach", store |-> store])
  \/ \E o \in Scalars, v \in SVals : Assign(o, <<v>>) /\ cnt.ops < MaxOps /\ H([a |-> "Assign", o |-> o, v |-> <<v>>])
  \/ \E o \in Lists, v \in UNION {[1..k -> Elems] : k \in 0..MaxLen} : Assign(o, v) /\ cnt.ops < MaxOps /\ H([a |-> "Assign", o |-> o, v |-> v])
  \/ \E o \in Lists : \E nv \in EditsOf(view[o]) : ListOp(o, nv) /\ cnt.ops < MaxOps /\ H([a |-> "ListOp", o |-> o, old |-> view[o], v |-> nv])
  \/ SaveSend /\ cnt.saves < MaxSaves /\ H([a |-> "SaveSend"])
  \/ SaveAck /\ H([a |-> "SaveAck"])
  \/ SaveReject /\ H([a |-> "SaveReject"])
  \/ \E o \in Options, vals \in SStores \cup LStores :
        ConfChanged(o, vals) /\ cnt.evs < MaxEvents /\ H([a |-> "ConfChanged", o |-> o, v |-> vals])
GSpec == GInit /\ [][GNext]_<<vars, hist>>
====
