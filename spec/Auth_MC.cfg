SPECIFICATION Spec
INVARIANT TypeOK
INVARIANT OnlyAuthBeforeAccept
INVARIANT MethodPreference
INVARIANT PasswordOnlyWithoutCookie
INVARIANT PasswordAtMostOnce
INVARIANT ProofDiscipline
INVARIANT ReadyOnce
INVARIANT ReadyOkOnlyAfterBootstrap
INVARIANT Decided
