SPECIFICATION Spec
CONSTANTS
  Names <- N2
  AddrsOf <- A2S
  Offsets <- Off
  MaxNow = 6
INVARIANT FindIffLive
INVARIANT FindsLatestAddr
INVARIANT AddrKeys
INVARIANT Counts
