SPECIFICATION GSpec
CONSTANTS
  Circs <- C2
  Streams <- S3
  Conns <- K2
  Ports <- P3F
  MaxSteps = 30
  MaxSubs = 3
