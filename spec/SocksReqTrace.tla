---------------------------- MODULE SocksReqTrace ----------------------------
(* Every recorded vector (one per ndjson line) is decided by TLC with the    *)
(* SocksReq grammar: accepted, explained by a listed deviation, or rejected. *)
EXTENDS SocksReq, Json, IOUtils, TLCExt
ASSUME TLCSet(3, ndJsonDeserialize(IOEnv.TRACE_FILE))
Vecs == TLCGet(3)
VARIABLES tid, verdict
TInit == r = 0 /\ tid \in 1..Len(Vecs) /\ verdict = "init"
TNext ==
  /\ verdict = "init"
  /\ LET v == Vecs[tid] IN
       verdict' = IF Holds(v) THEN "ok" ELSE IF DevExplains(v) # {} THEN "dev" ELSE "bad"
  /\ UNCHANGED <<r, tid>>
TSpec == TInit /\ [][TNext]_<<r, tid, verdict>>
ASSUME TLCSet(2, [t \in 1..Len(Vecs) |-> "none"])
Progress == verdict = "init" \/ TLCSet(2, [TLCGet(2) EXCEPT ![tid] = verdict])
Post == \A t \in 1..Len(Vecs) :
          LET vd == TLCGet(2)[t] IN
          PrintT(<<"TRACE", t, IF vd = "bad" \/ vd = "none" THEN 0 ELSE 1, 1,
                   IF vd = "dev" THEN DevExplains(Vecs[t]) ELSE {}>>)
=============================================================================
