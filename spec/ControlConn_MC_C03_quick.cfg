SPECIFICATION Spec
CONSTANTS
  MaxCmd = 2
  MaxEv = 0
  MaxLop = 1
  MaxPost = 2
  MaxDisc = 1
  ReplyShapes <- RS_two
  EventShapes <- ES_small
  EvNames <- N1
  Listeners <- L2
  SubmitKinds <- K3
  Loose = FALSE
  Dev <- NoDev
INVARIANT TypeOK
INVARIANT WireFIFO
INVARIANT OneOutstanding
INVARIANT Outcomes
INVARIANT InProgressCb
INVARIANT NoExc
INVARIANT Deliveries
INVARIANT SetEventsExact
INVARIANT RegAgree
INVARIANT DiscNotified
PROPERTY ResolvedOnce
PROPERTY NoWriteAfterLoss
PROPERTY NoWriteWhileOutstanding
