---- MODULE ConsensusTrace ----
(* Trace validation for Consensus: recorded executions of the real TorState relay bookkeeping. *)
EXTENDS Consensus, Json, IOUtils, TLCExt
ASSUME TLCSet(3, ndJsonDeserialize(IOEnv.TRACE_FILE))
Traces == TLCGet(3)
ASSUME TLCSet(4, IF "VMODE" \in DOMAIN IOEnv THEN IOEnv.VMODE ELSE "full")
Mode == TLCGet(4)
TR == <<"ra", "rb", "rc", "rd">>
TN == {"n1", "n2", "n3"}
SeqSet(s) == {s[i] : i \in 1..Len(s)}
VARIABLES tid, l
ASSUME TLCSet(2, [t \in 1..Len(Traces) |-> 0])
ASSUME TLCSet(5, [t \in 1..Len(Traces) |-> {}])
DevsOf(o) == IF SeqSet(o.auths) # Authorities THEN {"c16_authority_same_nick"} ELSE {}
\* the document of a step, from JSON (flags arrive as a sequence)
DocOf(e) == [r \in RSet |-> [e.d[r] EXCEPT !.flags = SeqSet(@)]]
ObsOK(o) ==
  /\ \A r \in RSet :
       /\ o.relays[r].known = view'[r].known
       \* the mark that tells a relay of the document from one made up for a lookup (IRouterContainer): set exactly for the former,
       \* also for a relay that was looked up - and got a stand-in - before the document that lists it arrived
       /\ o.relays[r].cons = view'[r].known
       /\ view'[r].known =>
            /\ o.relays[r].nick = view'[r].nick /\ o.relays[r].ip = view'[r].ip
            /\ SeqSet(o.relays[r].flags) = view'[r].flags /\ o.relays[r].v6 = view'[r].v6 /\ o.relays[r].bw = view'[r].bw
            /\ o.relays[r].serial = view'[r].serial
            /\ o.relays[r].ports /\ o.relays[r].byid /\ o.relays[r].codec
  /\ \A n \in Nicks : o.byname[n] = ByNick(n)'
  /\ SeqSet(o.guards) = Guards' /\ Len(o.guards) = Cardinality(Guards')
  /\ \/ SeqSet(o.auths) = Authorities' /\ Len(o.auths) = Cardinality(Authorities')
     \/ SeqSet(o.auths) = AuthoritiesAsIs' /\ Len(o.auths) = Cardinality(AuthoritiesAsIs')      \* known finding
  /\ o.nrelays = Cardinality({r \in RSet : view'[r].known})
  /\ ~o.exc
PropsOK == ViewIsDoc' /\ SerialsDistinct' /\ (\A r \in RSet : (view[r].known /\ view'[r].known) => view'[r].serial = view[r].serial)
Step(e) == \/ e.a = "Document" /\ Document(DocOf(e))
           \/ e.a = "Lookup" /\ Lookup /\ DocOf(e) = doc
TInit == Init /\ tid \in 1..Len(Traces) /\ l = 1
TNext ==
  /\ l <= Len(Traces[tid].steps)
  /\ LET e == Traces[tid].steps[l] IN Step(e) /\ (Mode = "full" => ObsOK(e.obs)) /\ (Mode # "env" => PropsOK)
  /\ l' = l + 1 /\ UNCHANGED tid
TSpec == TInit /\ [][TNext]_<<vars, tid, l>>
Progress == /\ TLCSet(2, [TLCGet(2) EXCEPT ![tid] = IF l - 1 > @ THEN l - 1 ELSE @])
            /\ (l > 1 => TLCSet(5, [TLCGet(5) EXCEPT ![tid] = @ \cup DevsOf(Traces[tid].steps[l - 1].obs)]))
Post == \A t \in 1..Len(Traces) : PrintT(<<"TRACE", t, TLCGet(2)[t], Len(Traces[t].steps), TLCGet(5)[t]>>)
====
