---- MODULE LaunchTrace ----
EXTENDS Launch, Json, IOUtils, TLCExt
ASSUME TLCSet(3, ndJsonDeserialize(IOEnv.TRACE_FILE))
Traces == TLCGet(3)
ASSUME TLCSet(4, IF "VMODE" \in DOMAIN IOEnv THEN IOEnv.VMODE ELSE "full")
Mode == TLCGet(4)
VARIABLES tid, l
ASSUME TLCSet(2, [t \in 1..Len(Traces) |-> 0])
ObsOK(o) ==
  /\ o.launch = launch' /\ o.nlaunch = nlaunch'
  /\ o.terms = terms' /\ o.dir = dirExists'
  /\ o.wrote = wrote'
  /\ ~o.exc
PropsOK == AtMostOnce' /\ SuccessOnlyAfterBootstrap' /\ FailsIfEndedOrTimedOutFirst' /\ TermOnTimeout' /\ TempDirRemoved'
           /\ UserDirKept' /\ TempDirKeptWhileRunning' /\ (launch # "p" => launch' = launch)
Step(e) ==
  CASE e.a = "Stdout"   -> Stdout(e.marker) /\ UNCHANGED <<shut, held>>
    [] e.a = "Stderr"   -> Stderr /\ UNCHANGED <<shut, held>>
    [] e.a = "Connect"  -> Connect(e.how) /\ UNCHANGED <<shut, held>>
    [] e.a = "CtlReply" -> CtlReply(e.ok) /\ UNCHANGED <<shut, held>>
    [] e.a = "Progress" -> Progress(e.p) /\ UNCHANGED <<shut, held>>
    [] e.a = "Timeout"  -> Timeout /\ UNCHANGED <<shut, held>>
    [] e.a = "Exit"     -> Exit /\ UNCHANGED <<shut, held>>
    [] e.a = "Shutdown" -> Shutdown /\ UNCHANGED held
    [] e.a = "ExitHeld" -> ExitHeld
    [] OTHER -> FALSE
TInit == Init /\ tid \in 1..Len(Traces) /\ l = 1 /\ dirKind = Traces[tid].dirkind
TNext ==
  /\ l <= Len(Traces[tid].steps)
  /\ LET e == Traces[tid].steps[l] IN Step(e) /\ (Mode = "full" => ObsOK(e.obs)) /\ (Mode # "env" => PropsOK)
  /\ l' = l + 1 /\ UNCHANGED tid
TSpec == TInit /\ [][TNext]_<<vars, tid, l>>
Progress2 == TLCSet(2, [TLCGet(2) EXCEPT ![tid] = IF l - 1 > @ THEN l - 1 ELSE @])
Post == \A t \in 1..Len(Traces) : PrintT(<<"TRACE", t, TLCGet(2)[t], Len(Traces[t].steps), {}>>)
====
