------------------------------ MODULE AddrMapM ------------------------------
(***************************************************************************)
(* txtorcon's address map (addrmap.py): names mapped to addresses by       *)
(* ADDRMAP events, each mapping with an expiry time, NEVER, or <error>,    *)
(* under a discrete clock.  Property C20.                                  *)
(*                                                                         *)
(* Ghost = Tor's truth (the latest mapping per name); mechanism = the map  *)
(* with its name and address keys and one expiry timer per entry.  Time is *)
(* scale-free in the model (ticks); the harness replays every behaviour    *)
(* with ticks of seconds, hours and more than a day.                       *)
(***************************************************************************)
EXTENDS Naturals, Integers, Sequences, FiniteSets, TLC

CONSTANTS Names, AddrsOf,   \* AddrsOf[n]: the addresses name n can be mapped to; two names may share an address (two names
                            \* of one host): its key then belongs to the name mapped to it last, and goes when that one goes
          Offsets,          \* expiry offsets relative to now, in ticks (negative = already past)
          MaxNow            \* bound on the clock (model checking only)

Never == 999
NoAddr == "none"
Addrs == UNION {AddrsOf[n] : n \in Names}

VARIABLES
  now,
  latest,   \* ghost: name -> [addr, exp] of Tor's most recent mapping, or NoMap
  byName,   \* mechanism: name -> [addr, due] (due = Never: no timer) or NoMap
  byAddr,   \* mechanism: address key -> name or NoAddr
  log,      \* listener notifications of the last step: sequence of <<"added"|"expired", name>>
  bal       \* ghost: per name, ("added" notifications) - ("expired" notifications) so far

vars == <<now, latest, byName, byAddr, log, bal>>
NoMap == [addr |-> NoAddr, exp |-> 0]

Init ==
  /\ now = 0
  /\ latest = [n \in Names |-> NoMap]
  /\ byName = [n \in Names |-> NoMap]
  /\ byAddr = [a \in Addrs |-> NoAddr]
  /\ log = <<>>
  /\ bal = [n \in Names |-> 0]

Mapped(n) == byName[n].addr # NoAddr

\* drop entry n: both keys go, listeners hear "expired"
Drop(bn, ba, n) == [bn |-> [bn EXCEPT ![n] = NoMap],
                    ba |-> [a \in Addrs |-> IF ba[a] = n THEN NoAddr ELSE ba[a]]]

\* an ADDRMAP event: name n now maps to address a until absolute time exp (or Never);
\* a = "<error>" means the lookup failed.  A mapping that has already expired when it arrives is
\* held until the next reactor turn (a zero-delay timer: Settle, or any Advance) - unless a later
\* event for the same name arrives first and replaces it, timer included.
Event(n, a, exp) ==
  /\ n \in Names /\ (a = "<error>" \/ a \in AddrsOf[n])
  /\ IF a = "<error>"
     THEN /\ latest' = [latest EXCEPT ![n] = NoMap]
          /\ IF Mapped(n)
             THEN LET d == Drop(byName, byAddr, n) IN
                  /\ byName' = d.bn /\ byAddr' = d.ba
                  /\ log' = << <<"expired", n>> >>
                  /\ bal' = [bal EXCEPT ![n] = @ - 1]
             ELSE UNCHANGED <<byName, byAddr, bal>> /\ log' = <<>>
     ELSE LET isnew == ~Mapped(n)
              past  == exp # Never /\ exp <= now
              \* re-key: the old address stops resolving, the new one resolves
              ba1   == [x \in Addrs |-> IF x = a THEN n ELSE IF byAddr[x] = n THEN NoAddr ELSE byAddr[x]]
              bn1   == [byName EXCEPT ![n] = [addr |-> a, exp |-> exp]]
          IN /\ latest' = [latest EXCEPT ![n] = IF past THEN NoMap ELSE [addr |-> a, exp |-> exp]]
             /\ byName' = bn1 /\ byAddr' = ba1
             /\ log' = (IF isnew THEN << <<"added", n>> >> ELSE <<>>)
             /\ bal' = [bal EXCEPT ![n] = @ + (IF isnew THEN 1 ELSE 0)]
  /\ UNCHANGED now

\* the clock advances by dt; timers due by then fire in order of their due time
Due(t) == {n \in Names : Mapped(n) /\ byName[n].exp # Never /\ byName[n].exp <= t}
RECURSIVE FireOrder(_)
FireOrder(S) == IF S = {} THEN <<>>
                ELSE LET n == CHOOSE x \in S : \A y \in S : byName[x].exp <= byName[y].exp
                     IN <<n>> \o FireOrder(S \ {n})
\* dt = 0 is a reactor turn without passage of time (Settle): only zero-delay timers fire
Advance(dt) ==
  /\ dt >= 0 /\ (dt = 0 => Due(now) # {})
  /\ now' = now + dt
  /\ LET due == Due(now + dt) IN
       /\ byName' = [n \in Names |-> IF n \in due THEN NoMap ELSE byName[n]]
       /\ byAddr' = [a \in Addrs |-> IF byAddr[a] \in due THEN NoAddr ELSE byAddr[a]]
       /\ latest' = [n \in Names |-> IF n \in due THEN NoMap ELSE latest[n]]
       /\ bal' = [n \in Names |-> IF n \in due THEN bal[n] - 1 ELSE bal[n]]
       \* two timers due at the same instant may fire in either order: the log is compared as a set then
       /\ log' = LET o == FireOrder(due) IN [i \in 1..Len(o) |-> <<"expired", o[i]>>]

Next ==
  \/ \E n \in Names, a \in Addrs \cup {"<error>"}, k \in Offsets \cup {Never} :
        Event(n, a, IF k = Never THEN Never ELSE now + k)
  \/ \E dt \in 0..3 : Advance(dt) /\ now + dt <= MaxNow

Spec == Init /\ [][Next]_vars

----------------------------------------------------------------------------
\* C20: looking a name up succeeds exactly when Tor's most recent mapping has not expired
\* (an entry that was overdue on arrival is waived until the reactor has turned)
Live(n) == latest[n].addr # NoAddr /\ (latest[n].exp = Never \/ latest[n].exp > now)
Overdue(n) == Mapped(n) /\ byName[n].exp # Never /\ byName[n].exp <= now
FindIffLive == \A n \in Names : ~Overdue(n) => (Mapped(n) <=> Live(n))
FindsLatestAddr == \A n \in Names : (Mapped(n) /\ ~Overdue(n)) => byName[n].addr = latest[n].addr /\ byName[n].exp = latest[n].exp
\* under the address exactly while the mapping is live, and only the current address
AddrKeys == \A a \in Addrs : byAddr[a] # NoAddr <=> (\E n \in Names : Mapped(n) /\ byName[n].addr = a /\ byAddr[a] = n)
\* one "added" per new name, one "expired" per expiry: a name is live iff added once more than expired
Counts == \A n \in Names : bal[n] = (IF Mapped(n) THEN 1 ELSE 0)
=============================================================================
