SPECIFICATION TSpec
CONSTANTS
  Names <- TN
  AddrsOf <- TA
  Offsets = {}
  MaxNow = 0
CONSTRAINT Progress
POSTCONDITION Post
CHECK_DEADLOCK FALSE
