SPECIFICATION TSpec
CONSTANTS
  Codes = {0}
  MaxApp = 0
  MaxChunk = 0
  Loose = TRUE
CONSTRAINT Progress
POSTCONDITION Post
CHECK_DEADLOCK FALSE
