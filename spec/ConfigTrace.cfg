SPECIFICATION TSpec
CONSTANTS
  Scalars <- TSc
  Lists <- TLi
  SVals <- TSV
  Elems <- TEL
  MaxLen = 4
  MaxOps = 0
  MaxSaves = 0
  MaxEvents = 0
  Dev <- TKnown
  Pairs2 = TRUE
  NoDef <- TNoDef
CONSTRAINT Progress
POSTCONDITION Post
CHECK_DEADLOCK FALSE
