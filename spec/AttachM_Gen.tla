---- MODULE AttachM_Gen ----
EXTENDS AttachM_MC
VARIABLE hist
H(r) == hist' = Append(hist, r)
GInit == Init /\ hist = <<>>
GNext ==
  /\ steps < MaxSteps
  /\ \/ \E s \in Streams, kind \in {"normal", "exit", "resolve"}, p \in Ports, a \in Answers, mode \in Modes, rf \in BOOLEAN :
          NewStream(s, kind, p, a, mode, rf) /\ (att # "A" => a = "none" /\ mode = "imm")
          /\ H([a |-> "NewStream", s |-> s, kind |-> kind, p |-> p, ans |-> a, mode |-> mode, rf |-> rf])
     \/ \E s \in Streams, rf \in BOOLEAN : Answer(s, rf) /\ H([a |-> "Answer", s |-> s, rf |-> rf])
     \/ \E s \in Streams : StreamFailed(s) /\ H([a |-> "StreamFailed", s |-> s])
     \/ \E s \in Streams : LateClosed(s) /\ H([a |-> "LateClosed", s |-> s])
     \/ \E s \in Streams, k \in {"CONTROLLER_WAIT", "REMAP"} : StreamProgress(s, k) /\ H([a |-> "Progress", s |-> s, k |-> k])
     \/ \E a \in {"A", "B", "P", "none"}, late \in BOOLEAN : SetAttacher(a, late) /\ H([a |-> "SetAttacher", who |-> a, late |-> late])
     \/ \E k \in Conns, c \in Circs, late \in BOOLEAN : ViaConnect(k, c, late) /\ H([a |-> "ViaConnect", k |-> k, c |-> c, late |-> late])
     \/ ConfAck /\ H([a |-> "ConfAck"])
     \/ \E k \in Conns, p \in Ports : ViaAddr(k, p) /\ H([a |-> "ViaAddr", k |-> k, p |-> p])
     \/ \E c \in Circs, to \in {"BUILDING", "BUILT", "GONE"} : CircStep(c, to) /\ H([a |-> "CircStep", c |-> c, to |-> to])
     \/ \E x \in Subs, pr \in Prios : AddSub(x, pr) /\ H([a |-> "AddSub", x |-> x, prio |-> pr])
     \/ \E x \in Subs : RemSub(x) /\ H([a |-> "RemSub", x |-> x])
     \/ \E s \in Streams, kind \in {"normal", "exit", "resolve"}, p \in Ports, sa \in [Subs -> SubAnswers], rf \in BOOLEAN :
          NewStreamP(s, kind, p, sa, rf) /\ H([a |-> "NewStreamP", s |-> s, kind |-> kind, p |-> p, sa |-> sa, rf |-> rf])
GSpec == GInit /\ [][GNext]_<<vars, hist>>
====
