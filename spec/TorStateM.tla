------------------------------ MODULE TorStateM ------------------------------
(***************************************************************************)
(* txtorcon's live view of Tor's circuits and streams (torstate.py,        *)
(* circuit.py, stream.py).  Properties C07 (the view equals Tor's truth,   *)
(* attachments consistent both ways) and C08 (one notification per         *)
(* transition, built / closed waits complete exactly once).                *)
(*                                                                         *)
(* Environment = Tor's truth (tc, ts) evolving by the actions Tor can      *)
(* take; a prefix of the history happens before the controller attaches    *)
(* (phase "pre"), Snapshot renders circuit-status / stream-status, later   *)
(* steps are delivered as 650 CIRC / 650 STREAM events.  The user adds     *)
(* and removes listeners and requests waits / closes at any position.      *)
(* Mechanism = the record m, a transliteration of TorState / Circuit /     *)
(* Stream bookkeeping.                                                     *)
(***************************************************************************)
EXTENDS Naturals, Integers, Sequences, FiniteSets, TLC

CONSTANTS
  CircIds, StreamIds, Relays,
  MaxPath,      \* longest path
  MaxPre,       \* Tor steps before the snapshot (model checking only)
  MaxEv,        \* Tor steps after it
  Listeners,    \* listener identities (global circuit+stream listeners)
  MaxUser,      \* bound on user actions (listen/unlisten/wait/close)
  Waits,        \* identities for wait / close requests
  Timed         \* TRUE: build_timeout_circuit requests are explored too

VARIABLES
  phase,   \* "pre" | "live"
  tc,      \* truth: [CircIds -> [st, path, pur, bf]], st = "none" when Tor has no such circuit
  ts,      \* truth: [StreamIds -> [st, circ, tgt, src]]
  m,       \* mechanism
  cnt      \* [pre, ev, user] bounds

vars == <<phase, tc, ts, m, cnt>>

NoC == [st |-> "none", path |-> <<>>, pur |-> "", bf |-> 0]
NoS == [st |-> "none", circ |-> 0, tgt |-> "", taddr |-> "", src |-> ""]
RemapAddrs == {"10.9.8.7", "10.9.8.8"}     \* addresses Tor remaps a stream to (cache hit, then the exit's answer)
Purposes == {"GENERAL", "HS_CLIENT_REND"}
Targets == {"h1.example:80", "h2.example:443"}
Srcs == {"127.0.0.1:4001", "127.0.0.1:4002"}

SeqToSet(s) == {s[i] : i \in 1..Len(s)}
Count(s, x) == Cardinality({i \in 1..Len(s) : s[i] = x})
Remove1(s, x) ==
  IF x \notin SeqToSet(s) THEN s
  ELSE LET idx == CHOOSE i \in 1..Len(s) : s[i] = x /\ \A j \in 1..(i-1) : s[j] # x
       IN SubSeq(s, 1, idx - 1) \o SubSeq(s, idx + 1, Len(s))

----------------------------------------------------------------------------
(* Mechanism state.                                                         *)
(*  c[id]: the Circuit object txtorcon holds for id: live = in state.circuits;    *)
(*         a dead object stays reachable from streams that were attached to it.   *)
MC0 == [live |-> FALSE, st |-> "none", path |-> <<>>, pur |-> "", bf |-> 0, streams |-> <<>>,
        ls |-> <<>>,              \* listeners of this Circuit object (TorState itself is implicit)
        built |-> "p",            \* _when_built: "p" | "ok" | "err"
        ph |-> FALSE,             \* the status is the placeholder written by an EXTENDCIRCUIT reply (until the next event)
        closing |-> FALSE,        \* _closing_deferred is set
        closeWaits |-> <<>>]      \* wait ids chained on _closing_deferred
MS0 == [live |-> FALSE, st |-> "none", circ |-> 0, tgt |-> "", taddr |-> "", src |-> "", ls |-> <<>>,
        closeWaits |-> <<>>]

M0 == [c |-> [i \in CircIds |-> MC0],
       s |-> [i \in StreamIds |-> MS0],
       cl |-> <<>>, sl |-> <<>>,           \* TorState.circuit_listeners / stream_listeners
       w |-> [x \in Waits |-> [k |-> "none", out |-> "p", n |-> 0, id |-> 0, tp |-> ""]],    \* waits: kind, outcome, times fired
       pendAck |-> <<>>,                   \* close commands written, not yet acknowledged: <<kind, id, wait>>
       notes |-> <<>>,                     \* notifications of this step: <<listener, kind, id, extra>>
       wrote |-> <<>>,                     \* control commands written in this step
       exc |-> FALSE]

Reset(mm) == [mm EXCEPT !.notes = <<>>, !.wrote = <<>>]

\* notify every listener in ls (in order) of (kind, id, extra)
Note(mm, ls, kind, id, extra) ==
  [mm EXCEPT !.notes = @ \o [i \in 1..Len(ls) |-> <<ls[i], kind, id, extra>>]]

\* (a timed build that is closing its circuit after the time-out ends in failure whatever the close's outcome)
FireW(mm, x, out0) ==
  LET out == IF mm.w[x].k = "tbuild" /\ mm.w[x].tp = "closing" THEN "err" ELSE out0 IN
  IF mm.w[x].out = "p" THEN [mm EXCEPT !.w[x].out = out, !.w[x].n = @ + 1]
  ELSE [mm EXCEPT !.w[x].n = @ + 1]
RECURSIVE FireAll(_, _, _)
FireAll(mm, xs, out) == IF xs = <<>> THEN mm ELSE FireAll(FireW(mm, Head(xs), out), Tail(xs), out)

\* fire the pending waits of one kind registered on object id (when_built / when_closed observers)
RECURSIVE FireSet(_, _, _)
FireSet(mm, S, out) == IF S = {} THEN mm ELSE LET x == CHOOSE y \in S : TRUE IN FireSet(FireW(mm, x, out), S \ {x}, out)
FireKind(mm, kind, id, out) ==
  FireSet(mm, {x \in Waits : /\ \/ mm.w[x].k = kind
                                 \/ (kind = "built" /\ mm.w[x].k = "tbuild" /\ mm.w[x].tp = "wait")
                              /\ mm.w[x].out = "p" /\ mm.w[x].id = id}, out)

----------------------------------------------------------------------------
(* Circuit.update(args) as driven by TorState._circuit_update               *)
\* ev = [id, st, path, pur, bf]
RECURSIVE ExtendNotes(_, _, _, _, _)
ExtendNotes(mm, ls, id, path, from) ==
  IF from > Len(path) THEN mm ELSE ExtendNotes(Note(mm, ls, "extend", id, path[from]), ls, id, path, from + 1)

OnCirc(mm0, ev) ==
  LET id    == ev.id
      isnew == ~mm0.c[id].live
      \* _maybe_create_circuit: a fresh Circuit object, listened to by the global listeners
      obj0  == IF isnew THEN [MC0 EXCEPT !.ls = mm0.cl] ELSE mm0.c[id]
      \* a new Circuit object for a re-used id: requests made on the old object no longer concern this id
      w1    == IF isnew THEN [x \in Waits |-> IF mm0.w[x].k \in {"built", "closed", "closec", "tbuild"} /\ mm0.w[x].tp # "cmd" /\ mm0.w[x].id = id
                                               THEN [mm0.w[x] EXCEPT !.id = 0] ELSE mm0.w[x]]
               ELSE mm0.w
      mm1   == [mm0 EXCEPT !.c[id] = [obj0 EXCEPT !.live = TRUE], !.w = w1]
      mm2   == IF isnew THEN Note(mm1, obj0.ls, "new", id, "") ELSE mm1
      ls    == obj0.ls
      oldlen == Len(obj0.path)
      terminal == ev.st \in {"CLOSED", "FAILED"}
      newpath == IF ev.st = "LAUNCHED" THEN <<>> ELSE IF terminal THEN obj0.path ELSE ev.path
      mm3   == [mm2 EXCEPT !.c[id].st = ev.st, !.c[id].pur = ev.pur, !.c[id].bf = ev.bf, !.c[id].path = newpath, !.c[id].ph = FALSE]
      mm4   == IF ev.st = "LAUNCHED" THEN Note(mm3, ls, "launched", id, "")
               ELSE IF terminal THEN mm3
               ELSE ExtendNotes(mm3, ls, id, newpath, oldlen + 1)
  IN CASE ev.st = "BUILT" ->
            LET mm5 == Note(mm4, ls, "built", id, "") IN
            FireKind([mm5 EXCEPT !.c[id].built = IF @ = "p" THEN "ok" ELSE @], "built", id, "ok")
       [] terminal ->
            \* maybe_call_closing_deferred, listeners (TorState first: fails _when_built, removes the circuit)
            LET mm5 == FireAll([mm4 EXCEPT !.c[id].closing = FALSE, !.c[id].closeWaits = <<>>],
                               mm4.c[id].closeWaits, "ok")
                mm6 == Note(mm5, ls, IF ev.st = "CLOSED" THEN "closed" ELSE "failed", id, "flags")
            IN FireKind(FireKind([mm6 EXCEPT !.c[id].live = FALSE, !.c[id].built = IF @ = "p" THEN "err" ELSE @],
                                 "built", id, "err"), "closed", id, "ok")
       [] OTHER -> mm4

(* Stream.update(args) as driven by TorState._stream_update                 *)
\* ev = [id, st, circ, tgt, src]  (src = "" when the line carries no SOURCE_ADDR)
Detach(mm, sid) ==
  LET c == mm.s[sid].circ IN
  IF c = 0 THEN mm ELSE [mm EXCEPT !.c[c].streams = Remove1(@, sid), !.s[sid].circ = 0]

OnStream(mm0, ev) ==
  LET id    == ev.id
      isnew == ~mm0.s[id].live
      obj0  == IF isnew THEN [MS0 EXCEPT !.ls = mm0.sl] ELSE mm0.s[id]
      ls    == obj0.ls
      ws1   == IF isnew THEN [x \in Waits |-> IF mm0.w[x].k = "closes" /\ mm0.w[x].id = id
                                               THEN [mm0.w[x] EXCEPT !.id = 0] ELSE mm0.w[x]]
               ELSE mm0.w
      mm1   == [mm0 EXCEPT !.w = ws1,
                           !.s[id] = [obj0 EXCEPT !.live = TRUE, !.st = ev.st,
                                                 !.src = IF ev.src # "" THEN ev.src ELSE @,
                                                 !.tgt = IF @ = "" /\ ev.st \in {"NEW", "NEWRESOLVE", "SUCCEEDED"} THEN ev.tgt ELSE @,
                                                 !.taddr = IF ev.st = "REMAP" THEN ev.tgt ELSE @]]
  IN CASE ev.st = "NEW" -> Detach(Note(mm1, ls, "snew", id, ""), id)
       [] ev.st \in {"NEWRESOLVE", "SUCCEEDED"} ->
            LET mm2 == Note(mm1, ls, "ssucceeded", id, "") IN
            IF ev.circ # 0 /\ mm2.s[id].circ = 0 /\ ev.st = "SUCCEEDED"
            THEN Note([mm2 EXCEPT !.s[id].circ = ev.circ, !.c[ev.circ].streams = Append(@, id)], ls, "sattach", id, "")
            ELSE IF ev.circ = 0 THEN Detach(mm2, id) ELSE mm2
       [] ev.st \in {"CLOSED", "FAILED"} ->
            LET mm2 == Detach(mm1, id)
                mm3 == FireAll([mm2 EXCEPT !.s[id].closeWaits = <<>>], mm2.s[id].closeWaits, "ok")
                mm4 == Note(mm3, ls, IF ev.st = "CLOSED" THEN "sclosed" ELSE "sfailed", id, "flags")
            IN [mm4 EXCEPT !.s[id].live = FALSE]
       [] ev.st = "DETACHED" -> Note(Detach(mm1, id), ls, "sdetach", id, "flags")
       [] OTHER -> \* SENTCONNECT, REMAP, SENTRESOLVE: attach if a circuit is named and we are on none
            IF ev.circ = 0 THEN Detach(mm1, id)
            ELSE IF mm1.s[id].circ = 0
                 THEN Note([mm1 EXCEPT !.s[id].circ = ev.circ, !.c[ev.circ].streams = Append(@, id)], ls, "sattach", id, "")
                 ELSE mm1

----------------------------------------------------------------------------
(* Environment: Tor.                                                        *)
LiveC(c) == tc[c].st # "none"
\* "ZOMBIE": Tor has reported the stream FAILED (it is gone for us) but will still report it CLOSED when it
\* frees the connection
LiveS(s) == ts[s].st \notin {"none", "ZOMBIE"}
Referenced(c) == \E s \in StreamIds : LiveS(s) /\ ts[s].circ = c

CircEv(c) == [id |-> c, st |-> tc'[c].st, path |-> tc'[c].path, pur |-> tc'[c].pur, bf |-> tc'[c].bf]

Deliver(kind, ev) ==
  IF phase = "pre" THEN m' = m
  ELSE m' = (IF kind = "C" THEN OnCirc(Reset(m), ev) ELSE OnStream(Reset(m), ev))

TorStep == IF phase = "pre" THEN cnt' = [cnt EXCEPT !.pre = @ + 1] ELSE cnt' = [cnt EXCEPT !.ev = @ + 1]

\* a circuit we asked for with build_circuit exists in Tor ("NEWBORN") before Tor announces it
Newborn(c) == tc[c].st = "NEWBORN"
PendingBuild(c) == \E i \in 1..Len(m.pendAck) : m.pendAck[i][1] = "B" /\ m.pendAck[i][2] = c     \* its EXTENDCIRCUIT is unanswered
Launch(c, pur, bf) ==
  /\ pur \in Purposes /\ bf \in 1..2
  /\ \/ ~LiveC(c) /\ ~Referenced(c)
     \/ Newborn(c) /\ pur = tc[c].pur /\ bf = tc[c].bf       \* the announcement of a circuit created at our request
  /\ \A i \in 1..Len(m.pendAck) : ~(m.pendAck[i][1] = "C" /\ m.pendAck[i][2] = c)   \* id not re-used while its close is unacknowledged
  /\ tc' = [tc EXCEPT ![c] = [st |-> "LAUNCHED", path |-> <<>>, pur |-> pur, bf |-> bf]]
  /\ Deliver("C", [id |-> c, st |-> "LAUNCHED", path |-> <<>>, pur |-> pur, bf |-> bf])
  /\ TorStep /\ UNCHANGED <<phase, ts>>

\* a hop is added.  Tor also extends circuits that are already BUILT (it cannibalises a built general
\* circuit, e.g. for an onion-service rendezvous: one more hop, possibly a new purpose, then BUILT again)
Extend(c, r, pur) ==
  /\ ~PendingBuild(c)
  /\ tc[c].st \in {"LAUNCHED", "EXTENDED", "BUILT"} /\ Len(tc[c].path) < MaxPath /\ r \in Relays
  /\ pur \in Purposes /\ (tc[c].st # "BUILT" => pur = tc[c].pur)
  /\ tc' = [tc EXCEPT ![c].st = "EXTENDED", ![c].path = Append(@, r), ![c].pur = pur]
  /\ Deliver("C", [id |-> c, st |-> "EXTENDED", path |-> Append(tc[c].path, r), pur |-> pur, bf |-> tc[c].bf])
  /\ TorStep /\ UNCHANGED <<phase, ts>>

Built(c) ==
  /\ tc[c].st = "EXTENDED" /\ ~PendingBuild(c)
  /\ tc' = [tc EXCEPT ![c].st = "BUILT"]
  /\ Deliver("C", [id |-> c, st |-> "BUILT", path |-> tc[c].path, pur |-> tc[c].pur, bf |-> tc[c].bf])
  /\ TorStep /\ UNCHANGED <<phase, ts>>

\* a circuit goes away (CLOSED if it was built, FAILED otherwise); streams on it stay "on" it
\* until Tor says otherwise
CircGone(c) ==
  /\ LiveC(c) /\ ~Newborn(c) /\ ~PendingBuild(c)
  /\ tc' = [tc EXCEPT ![c] = NoC]
  /\ Deliver("C", [id |-> c, st |-> IF tc[c].st = "BUILT" THEN "CLOSED" ELSE "FAILED", path |-> tc[c].path,
                   pur |-> tc[c].pur, bf |-> tc[c].bf])
  /\ TorStep /\ UNCHANGED <<phase, ts>>

StreamNew(s, st, tgt, src) ==
  /\ ts[s].st = "none" /\ st \in {"NEW", "NEWRESOLVE"} /\ tgt \in Targets /\ src \in Srcs
  /\ ts' = [ts EXCEPT ![s] = [st |-> st, circ |-> 0, tgt |-> tgt, taddr |-> "", src |-> src]]
  /\ Deliver("S", [id |-> s, st |-> st, circ |-> 0, tgt |-> tgt, src |-> src])
  /\ TorStep /\ UNCHANGED <<phase, tc>>

SentConnect(s, c) ==
  /\ LiveS(s) /\ ts[s].circ = 0 /\ ts[s].st \in {"NEW", "DETACHED", "REMAP"} /\ tc[c].st = "BUILT"
  /\ ts' = [ts EXCEPT ![s].st = "SENTCONNECT", ![s].circ = c]
  /\ Deliver("S", [id |-> s, st |-> "SENTCONNECT", circ |-> c, tgt |-> ts[s].tgt, src |-> ""])
  /\ TorStep /\ UNCHANGED <<phase, tc>>

\* Tor remaps a stream's target: from its address cache before attaching (NEW, circuit 0), and
\* again with the exit's answer after SENTCONNECT; each REMAP carries the latest address.
Remap(s, a) ==
  /\ LiveS(s) /\ ts[s].st \in {"NEW", "SENTCONNECT", "REMAP"} /\ a \in RemapAddrs /\ a # ts[s].taddr
  /\ ts' = [ts EXCEPT ![s].st = "REMAP", ![s].taddr = a]
  /\ Deliver("S", [id |-> s, st |-> "REMAP", circ |-> ts[s].circ, tgt |-> a, src |-> ""])
  /\ TorStep /\ UNCHANGED <<phase, tc>>

Succeeded(s) ==
  /\ LiveS(s) /\ ts[s].st \in {"SENTCONNECT", "REMAP"} /\ ts[s].circ # 0
  /\ ts' = [ts EXCEPT ![s].st = "SUCCEEDED"]
  /\ Deliver("S", [id |-> s, st |-> "SUCCEEDED", circ |-> ts[s].circ, tgt |-> ts[s].tgt, src |-> ""])
  /\ TorStep /\ UNCHANGED <<phase, tc>>

Detached(s) ==
  /\ LiveS(s) /\ ts[s].circ # 0
  /\ ts' = [ts EXCEPT ![s].st = "DETACHED", ![s].circ = 0]
  /\ Deliver("S", [id |-> s, st |-> "DETACHED", circ |-> ts[s].circ, tgt |-> ts[s].tgt, src |-> ""])
  /\ TorStep /\ UNCHANGED <<phase, tc>>

StreamGone(s, how, z) ==
  /\ LiveS(s) /\ how \in {"CLOSED", "FAILED"} /\ z \in BOOLEAN /\ (z => how = "FAILED")
  /\ ts' = [ts EXCEPT ![s] = IF z THEN [NoS EXCEPT !.st = "ZOMBIE", !.tgt = ts[s].tgt] ELSE NoS]
  /\ Deliver("S", [id |-> s, st |-> how, circ |-> ts[s].circ, tgt |-> ts[s].tgt, src |-> ""])
  /\ TorStep /\ UNCHANGED <<phase, tc>>

\* Tor reports a stream CLOSED that it has already reported FAILED: for us that is an unknown stream id
\* whose first and only event is terminal - it is announced to listeners and gone again
LateClosed(s) ==
  /\ ts[s].st = "ZOMBIE"
  /\ ts' = [ts EXCEPT ![s] = NoS]
  /\ Deliver("S", [id |-> s, st |-> "CLOSED", circ |-> 0, tgt |-> ts[s].tgt, src |-> ""])
  /\ TorStep /\ UNCHANGED <<phase, tc>>

\* the controller attaches: circuit-status then stream-status are loaded.  Tor's snapshot is
\* consistent: no stream is reported on a circuit that is not reported.
RECURSIVE LoadC(_, _), LoadS(_, _)
LoadC(mm, S) == IF S = {} THEN mm
                ELSE LET c == CHOOSE x \in S : \A y \in S : x <= y IN
                     LoadC(IF LiveC(c) THEN OnCirc(mm, [id |-> c, st |-> tc[c].st, path |-> tc[c].path, pur |-> tc[c].pur, bf |-> tc[c].bf])
                           ELSE mm, S \ {c})
LoadS(mm, S) == IF S = {} THEN mm
                ELSE LET s == CHOOSE x \in S : \A y \in S : x <= y IN
                     LoadS(IF LiveS(s) THEN OnStream(mm, [id |-> s, st |-> ts[s].st, circ |-> ts[s].circ,
                                                     tgt |-> IF ts[s].st = "REMAP" THEN ts[s].taddr ELSE ts[s].tgt, src |-> ""])
                           ELSE mm, S \ {s})
Snapshot ==
  /\ phase = "pre"
  /\ \A s \in StreamIds : LiveS(s) /\ ts[s].circ # 0 => LiveC(ts[s].circ)
  /\ phase' = "live"
  /\ m' = LoadS(LoadC(Reset(m), CircIds), StreamIds)
  /\ UNCHANGED <<tc, ts, cnt>>

----------------------------------------------------------------------------
(* Environment: the user.                                                   *)
UserStep == cnt' = [cnt EXCEPT !.user = @ + 1]

\* TorState.add_circuit_listener / add_stream_listener: existing live objects and future ones
\* (adding a listener again re-attaches it to every object it has been taken off meanwhile)
AddListener(l) ==
  /\ phase = "live" /\ l \in Listeners
  /\ m' = [Reset(m) EXCEPT
             !.cl = IF l \in SeqToSet(@) THEN @ ELSE Append(@, l), !.sl = IF l \in SeqToSet(@) THEN @ ELSE Append(@, l),
             !.c = [i \in CircIds |-> IF m.c[i].live /\ l \notin SeqToSet(m.c[i].ls)
                                      THEN [m.c[i] EXCEPT !.ls = Append(@, l)] ELSE m.c[i]],
             !.s = [i \in StreamIds |-> IF m.s[i].live /\ l \notin SeqToSet(m.s[i].ls)
                                        THEN [m.s[i] EXCEPT !.ls = Append(@, l)] ELSE m.s[i]]]
  /\ UserStep /\ UNCHANGED <<phase, tc, ts>>

\* circuit.unlisten(l) / stream.unlisten(l) on one object
UnlistenC(l, c) ==
  /\ phase = "live" /\ m.c[c].live /\ l \in SeqToSet(m.c[c].ls)
  /\ m' = [Reset(m) EXCEPT !.c[c].ls = Remove1(@, l)]
  /\ UserStep /\ UNCHANGED <<phase, tc, ts>>
UnlistenS(l, s) ==
  /\ phase = "live" /\ m.s[s].live /\ l \in SeqToSet(m.s[s].ls)
  /\ m' = [Reset(m) EXCEPT !.s[s].ls = Remove1(@, l)]
  /\ UserStep /\ UNCHANGED <<phase, tc, ts>>

\* circuit.when_built() on the Circuit object the user holds for id c (known to txtorcon at some point)
Known(c) == m.c[c].st # "none"
WaitBuilt(x, c) ==
  /\ phase = "live" /\ Known(c) /\ m.w[x].k = "none"
  /\ m' = LET mm == [Reset(m) EXCEPT !.w[x] = [k |-> "built", out |-> "p", n |-> 0, id |-> c, tp |-> ""]] IN
          IF mm.c[c].st = "BUILT" \/ mm.c[c].built = "ok" THEN FireW(mm, x, "ok")
          ELSE IF mm.c[c].built = "err" THEN FireW(mm, x, "err") ELSE mm
  /\ UserStep /\ UNCHANGED <<phase, tc, ts>>

WaitClosed(x, c) ==
  /\ phase = "live" /\ Known(c) /\ m.w[x].k = "none"
  /\ m' = LET mm == [Reset(m) EXCEPT !.w[x] = [k |-> "closed", out |-> "p", n |-> 0, id |-> c, tp |-> ""]] IN
          IF ~mm.c[c].live THEN FireW(mm, x, "ok") ELSE mm
  /\ UserStep /\ UNCHANGED <<phase, tc, ts>>

\* TorState.build_circuit(): EXTENDCIRCUIT 0 is written; Tor creates circuit c ("NEWBORN": it exists, nothing
\* has been announced).  Tor answers "EXTENDED c" (Ack) and announces the circuit (Launch) - replies are
\* flushed before events, but both orders are explored.  Whichever comes first creates the Circuit object.
Build(x, c, pur, bf) ==
  /\ phase = "live" /\ m.w[x].k = "none" /\ m.pendAck = <<>>     \* (nothing in flight: the command is written at once)
  /\ ~LiveC(c) /\ ~Referenced(c) /\ ~m.c[c].live /\ pur \in Purposes /\ bf \in 1..2
  /\ tc' = [tc EXCEPT ![c] = [st |-> "NEWBORN", path |-> <<>>, pur |-> pur, bf |-> bf]]
  /\ m' = [Reset(m) EXCEPT !.wrote = << <<"EXTENDCIRCUIT", 0>> >>, !.pendAck = << <<"B", c, x>> >>,
                           !.w[x] = [k |-> "build", out |-> "p", n |-> 0, id |-> c, tp |-> ""]]
  /\ UserStep /\ UNCHANGED <<phase, ts>>

\* the "EXTENDED c" reply: _find_circuit_after_extend finds or creates the Circuit object and marks it EXTENDED
\* (a placeholder: the reply says nothing about the status)
BuildReply(mm, c, x) ==
  LET isnew == ~mm.c[c].live
      w1  == IF isnew THEN [y \in Waits |-> IF mm.w[y].k \in {"built", "closed", "closec", "tbuild"} /\ mm.w[y].tp # "cmd" /\ mm.w[y].id = c
                                             THEN [mm.w[y] EXCEPT !.id = 0] ELSE mm.w[y]]
             ELSE mm.w
      obj == IF isnew THEN [MC0 EXCEPT !.ls = mm.cl, !.live = TRUE, !.st = "EXTENDED", !.ph = TRUE]
             ELSE [mm.c[c] EXCEPT !.st = "EXTENDED", !.ph = TRUE]
      m1  == [mm EXCEPT !.c[c] = obj, !.w = w1]
      m2  == IF isnew THEN Note(m1, mm.cl, "new", c, "") ELSE m1
  IN IF mm.w[x].k = "tbuild"
     THEN \* build_timeout_circuit: timed out already -> the answer is dropped (nothing is created from it);
          \* otherwise it goes on to wait for the circuit to be built
          IF mm.w[x].tp = "cancelled" THEN mm
          ELSE IF m2.c[c].built = "ok" THEN FireW(m2, x, "ok")
          ELSE IF m2.c[c].built = "err" THEN FireW(m2, x, "err")
          ELSE [m2 EXCEPT !.w[x].tp = "wait"]
     ELSE FireW(m2, x, "ok")

\* circuit.build_timeout_circuit(): as Build, then waits for the circuit to be BUILT; when the time is up first
\* (BuildTimeout) the circuit - if the answer has told us which one it is - is closed and the request fails
TimedBuild(x, c, pur, bf) ==
  /\ phase = "live" /\ m.w[x].k = "none" /\ m.pendAck = <<>>
  /\ ~LiveC(c) /\ ~Referenced(c) /\ ~m.c[c].live /\ pur \in Purposes /\ bf \in 1..2
  /\ tc' = [tc EXCEPT ![c] = [st |-> "NEWBORN", path |-> <<>>, pur |-> pur, bf |-> bf]]
  /\ m' = [Reset(m) EXCEPT !.wrote = << <<"EXTENDCIRCUIT", 0>> >>, !.pendAck = << <<"B", c, x>> >>,
                           !.w[x] = [k |-> "tbuild", out |-> "p", n |-> 0, id |-> c, tp |-> "cmd"]]
  /\ UserStep /\ UNCHANGED <<phase, ts>>

BuildTimeout(x) ==
  /\ phase = "live" /\ m.w[x].k = "tbuild" /\ m.w[x].tp \in {"cmd", "wait"} /\ m.w[x].out = "p"
  /\ LET c  == m.w[x].id
         mm == Reset(m) IN
     m' = IF m.w[x].tp = "cmd"
          THEN FireW([mm EXCEPT !.w[x].tp = "cancelled"], x, "err")
          ELSE LET m1 == [mm EXCEPT !.w[x].tp = "closing"] IN
               IF m1.c[c].closing THEN [m1 EXCEPT !.c[c].closeWaits = Append(@, x)]
               ELSE [m1 EXCEPT !.c[c].closing = TRUE,
                               !.wrote = IF m1.pendAck = <<>> THEN Append(@, <<"CLOSECIRCUIT", c>>) ELSE @,
                               !.pendAck = Append(@, <<"C", c, x>>)]
  /\ UserStep /\ UNCHANGED <<phase, tc, ts>>

\* circuit.close(): completes only when Tor reports the circuit gone
CloseC(x, c) ==
  /\ phase = "live" /\ Known(c) /\ m.w[x].k = "none" /\ m.c[c].st # "FAILED"
  /\ m' = LET mm == [Reset(m) EXCEPT !.w[x] = [k |-> "closec", out |-> "p", n |-> 0, id |-> c, tp |-> ""]] IN
          IF mm.c[c].st = "CLOSED" THEN FireW(mm, x, "ok")
          ELSE IF mm.c[c].closing THEN [mm EXCEPT !.c[c].closeWaits = Append(@, x)]
          ELSE [mm EXCEPT !.c[c].closing = TRUE,
                          !.wrote = IF mm.pendAck = <<>> THEN Append(@, <<"CLOSECIRCUIT", c>>) ELSE @,
                          !.pendAck = Append(@, <<"C", c, x>>)]
  /\ UserStep /\ UNCHANGED <<phase, tc, ts>>

CloseS(x, s) ==
  /\ phase = "live" /\ m.s[s].live /\ m.w[x].k = "none"
  /\ m' = LET mm == [Reset(m) EXCEPT !.w[x] = [k |-> "closes", out |-> "p", n |-> 0, id |-> s, tp |-> ""]] IN
          IF mm.s[s].closeWaits # <<>> THEN [mm EXCEPT !.s[s].closeWaits = Append(@, x)]
          ELSE [mm EXCEPT !.s[s].closeWaits = <<x>>,
                          !.wrote = IF mm.pendAck = <<>> THEN Append(@, <<"CLOSESTREAM", s>>) ELSE @,
                          !.pendAck = Append(@, <<"S", s, x>>)]
  /\ UserStep /\ UNCHANGED <<phase, tc, ts>>

\* Tor acknowledges the oldest close command (250 OK); the object may or may not be gone already
Ack ==
  /\ m.pendAck # <<>>
  /\ LET a == Head(m.pendAck)
         \* one command in flight at a time: the next close command goes out when this one is answered
         nxt == IF Len(m.pendAck) > 1
                THEN << <<IF m.pendAck[2][1] = "C" THEN "CLOSECIRCUIT" ELSE "CLOSESTREAM", m.pendAck[2][2]>> >>
                ELSE <<>>
         mm == [Reset(m) EXCEPT !.pendAck = Tail(@), !.wrote = nxt]
     IN m' = IF a[1] = "B" THEN BuildReply(mm, a[2], a[3])
             ELSE IF a[1] = "C"
             THEN \* close_command_is_queued returns _closing_deferred: chain if still set, else done
                  IF mm.c[a[2]].closing THEN [mm EXCEPT !.c[a[2]].closeWaits = Append(@, a[3])]
                  ELSE FireW(mm, a[3], "ok")
             ELSE mm
  /\ UNCHANGED <<phase, tc, ts, cnt>>

\* Tor refuses the oldest close command (5xx: an unrecognised reason or flag, an id it no longer knows).  For a
\* circuit the request that issued the command fails, later requests keep waiting for the circuit to go away; a
\* stream's close requests all keep waiting for the stream to go away (the refusal is only logged).
Nack ==
  /\ m.pendAck # <<>> /\ Head(m.pendAck)[1] # "B"
  /\ LET a == Head(m.pendAck)
         nxt == IF Len(m.pendAck) > 1
                THEN << <<IF m.pendAck[2][1] = "C" THEN "CLOSECIRCUIT" ELSE "CLOSESTREAM", m.pendAck[2][2]>> >>
                ELSE <<>>
         mm == [Reset(m) EXCEPT !.pendAck = Tail(@), !.wrote = nxt]
     IN m' = IF a[1] = "C" THEN FireW(mm, a[3], "err") ELSE mm
  /\ UNCHANGED <<phase, tc, ts, cnt>>

Init ==
  /\ phase = "pre"
  /\ tc = [c \in CircIds |-> NoC] /\ ts = [s \in StreamIds |-> NoS]
  /\ m = M0
  /\ cnt = [pre |-> 0, ev |-> 0, user |-> 0]

TorNext ==
  \/ \E c \in CircIds, p \in Purposes, bf \in 1..2 : Launch(c, p, bf)
  \/ \E c \in CircIds, r \in Relays, p \in Purposes : Extend(c, r, p)
  \/ \E c \in CircIds : Built(c) \/ CircGone(c)
  \/ \E s \in StreamIds, st \in {"NEW", "NEWRESOLVE"}, t \in Targets, a \in Srcs : StreamNew(s, st, t, a)
  \/ \E s \in StreamIds, c \in CircIds : SentConnect(s, c)
  \/ \E s \in StreamIds : (\E a \in RemapAddrs : Remap(s, a)) \/ Succeeded(s) \/ Detached(s)
  \/ \E s \in StreamIds, how \in {"CLOSED", "FAILED"}, z \in BOOLEAN : StreamGone(s, how, z)
  \/ \E s \in StreamIds : LateClosed(s)

UserNext ==
  \/ \E l \in Listeners : AddListener(l)
  \/ \E l \in Listeners, c \in CircIds : UnlistenC(l, c)
  \/ \E l \in Listeners, s \in StreamIds : UnlistenS(l, s)
  \/ \E x \in Waits, c \in CircIds : WaitBuilt(x, c) \/ WaitClosed(x, c) \/ CloseC(x, c)
  \/ \E x \in Waits, s \in StreamIds : CloseS(x, s)
  \/ \E x \in Waits, c \in CircIds, p \in Purposes, bf \in 1..2 : Build(x, c, p, bf) \/ (Timed /\ TimedBuild(x, c, p, bf))
  \/ \E x \in Waits : BuildTimeout(x)

Next ==
  \/ TorNext /\ (IF phase = "pre" THEN cnt.pre < MaxPre ELSE cnt.ev < MaxEv)
  \/ Snapshot
  \/ UserNext /\ cnt.user < MaxUser
  \/ Ack
  \/ Nack

Spec == Init /\ [][Next]_vars

----------------------------------------------------------------------------
(* C07                                                                      *)
Live == phase = "live"
CircuitsMatch ==
  Live => \A c \in CircIds :
     /\ ~Newborn(c) => (m.c[c].live <=> LiveC(c))
     /\ (LiveC(c) /\ ~Newborn(c)) => /\ (m.c[c].ph \/ m.c[c].st = tc[c].st)
                                     /\ m.c[c].path = tc[c].path /\ m.c[c].pur = tc[c].pur /\ m.c[c].bf = tc[c].bf
     \* known from the EXTENDCIRCUIT reply only: listed, nothing else known yet
     /\ (Newborn(c) /\ m.c[c].live) => m.c[c].path = <<>>
StreamsMatch ==
  Live => \A s \in StreamIds :
     /\ m.s[s].live <=> LiveS(s)
     /\ LiveS(s) => m.s[s].st = ts[s].st /\ m.s[s].circ = ts[s].circ
\* target / source are known once Tor has reported them to us
StreamDetails ==
  Live => \A s \in StreamIds : LiveS(s) =>
     /\ m.s[s].tgt \in {"", ts[s].tgt}
     /\ m.s[s].src \in {"", ts[s].src}
     \* the remapped address is the latest one Tor reported (unknown only if we attached after it)
     /\ m.s[s].taddr \in {"", ts[s].taddr}
     /\ ts[s].st = "REMAP" => m.s[s].taddr = ts[s].taddr
AttachBothWays ==
  Live => /\ \A s \in StreamIds : (m.s[s].live /\ m.s[s].circ # 0) => Count(m.c[m.s[s].circ].streams, s) = 1
          /\ \A c \in CircIds : \A s \in SeqToSet(m.c[c].streams) : m.s[s].live /\ m.s[s].circ = c
          /\ \A c \in CircIds : \A i, j \in 1..Len(m.c[c].streams) : i # j => m.c[c].streams[i] # m.c[c].streams[j]
NoExc == ~m.exc

(* C08                                                                      *)
\* every wait fires at most once; built waits succeed iff BUILT was reached
WaitsOnce == \A x \in Waits : m.w[x].n <= 1 /\ (m.w[x].out = "p" <=> m.w[x].n = 0)
BuiltWaits ==
  \A x \in Waits : (m.w[x].k = "built" /\ m.w[x].id # 0) =>
     LET c == m.w[x].id IN
     /\ m.w[x].out = "ok" => m.c[c].built = "ok"
     /\ m.w[x].out = "err" => m.c[c].built = "err"
     /\ m.w[x].out = "p" => m.c[c].built = "p"
\* a close request is complete only if Tor reported the object gone; once it is gone and the
\* command acknowledged nothing stays pending
CloseWaits ==
  \A x \in Waits : m.w[x].id # 0 =>
     /\ (m.w[x].k = "closec" /\ m.w[x].out = "ok") => ~m.c[m.w[x].id].live
     /\ (m.w[x].k = "closes" /\ m.w[x].out = "ok") => ~m.s[m.w[x].id].live
     /\ (m.w[x].k = "closed" /\ m.w[x].out = "ok") => ~m.c[m.w[x].id].live
     /\ (m.w[x].k = "closed" /\ ~m.c[m.w[x].id].live /\ m.pendAck = <<>>) => m.w[x].out = "ok"
     \* (a close request whose command Tor refused has failed; every other one completes)
     /\ (m.w[x].k = "closec" /\ ~m.c[m.w[x].id].live /\ m.pendAck = <<>>) => m.w[x].out # "p"
     /\ (m.w[x].k = "closes" /\ ~m.s[m.w[x].id].live) => m.w[x].out = "ok"
\* a timed build succeeds only with a circuit that was BUILT in time; once the time is up it fails - at once if the
\* circuit is not known yet, else as soon as the circuit it closes is gone
TimedBuilds ==
  \A x \in Waits : m.w[x].k = "tbuild" =>
     /\ (m.w[x].out = "ok" => m.w[x].tp = "wait")
     /\ (m.w[x].tp = "cancelled" => m.w[x].out = "err")
     /\ (m.w[x].tp = "closing" /\ m.w[x].id # 0 /\ ~m.c[m.w[x].id].live /\ m.pendAck = <<>>) => m.w[x].out = "err"
TypeOK == phase \in {"pre", "live"}
=============================================================================
