SPECIFICATION GSpec
CONSTANTS
  MaxCmd = 3
  MaxEv = 5
  MaxLop = 6
  MaxPost = 0
  MaxDisc = 0
  ReplyShapes <- RS_small
  EventShapes <- ES_big
  EvNames <- N2
  Listeners <- L7
  SubmitKinds <- K2
  Loose = FALSE
  Dev <- NoDev
  AllowLose = FALSE
