SPECIFICATION GSpec
CONSTANTS
  CircIds <- C3
  StreamIds <- S3
  Relays <- R3
  MaxPath = 3
  MaxPre = 6
  MaxEv = 60
  Listeners <- L0
  MaxUser = 0
  Waits <- W0
  Timed = FALSE
