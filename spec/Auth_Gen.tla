---- MODULE Auth_Gen ----
EXTENDS Auth
VARIABLE hist
H(r) == hist' = Append(hist, r)
GInit == Init /\ hist = <<>>
GNext ==
  \/ Start /\ H([a |-> "Start"])
  \/ \E k \in {"ok", "noauth", "err"} : ReplyPI(k) /\ H([a |-> "ReplyPI", k |-> k])
  \/ \E ok \in BOOLEAN : PwResolve(ok) /\ H([a |-> "PwResolve", ok |-> ok])
  \/ \E ok \in BOOLEAN : ReplyAuth(ok) /\ H([a |-> "ReplyAuth", ok |-> ok])
  \/ \E ok \in BOOLEAN : ReplyQuery(ok) /\ H([a |-> "ReplyQuery", ok |-> ok])
  \/ \E k \in {"ok", "wronghash", "replay", "shorthash", "emptyhash", "longhash", "malformed", "err"} : ReplyChallenge(k) /\ H([a |-> "ReplyChallenge", k |-> k])
  \/ \E clean \in BOOLEAN : Disconnect(clean) /\ H([a |-> "Disconnect", clean |-> clean])
GSpec == GInit /\ [][GNext]_<<vars, hist>>
\* exhaustive generation: every complete behaviour (a leaf of the tree) is printed once
Emit == phase = "end" => PrintT(<<"BEH", scen, hist>>)
====
