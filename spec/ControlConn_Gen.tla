---------------------------- MODULE ControlConn_Gen ----------------------------
(* ControlConn with a history variable: TLC (-simulate or bounded BFS) emits  *)
(* complete behaviours as stimulus scripts which the harness replays into the *)
(* real TorControlProtocol.                                                   *)
EXTENDS ControlConn_MC
CONSTANT AllowLose
VARIABLE hist
GInit == Init /\ hist = <<>>
H(r) == hist' = Append(hist, r)
GNext ==
  \/ \E k \in SubmitKinds : Submit(k) /\ (IF m.lost THEN cnt.post < MaxPost ELSE cnt.sub < MaxCmd)
                                  /\ H([a |-> "Submit", k |-> k])
  \/ \E ll \in Listeners, n \in EvNames : AddL(ll, n) /\ cnt.lop < MaxLop /\ ~m.lost /\ H([a |-> "AddL", l |-> ll, n |-> n])
  \/ \E ll \in Listeners, n \in EvNames : RemL(ll, n) /\ cnt.lop < MaxLop /\ ~m.lost /\ H([a |-> "RemL", l |-> ll, n |-> n])
  \/ \E k \in {"plain", "again", "submit"} : WhenDisc(k) /\ cnt.disc < MaxDisc /\ H([a |-> "WhenDisc", k |-> k])
  \/ \E rs \in ReplyShapes : BeginReply(rs[1], rs[2]) /\ H([a |-> "BeginReply", cls |-> rs[1], sh |-> rs[2]])
  \/ \E n \in EvNames, sh \in EventShapes : BeginEvent(n, sh) /\ nev < MaxEv /\ H([a |-> "BeginEvent", n |-> n, sh |-> sh])
  \/ Line /\ H([a |-> "Line"])
  \/ Lose /\ AllowLose /\ H([a |-> "Lose"])
GSpec == GInit /\ [][GNext]_<<vars, hist>>
=============================================================================
