SPECIFICATION LiveSpec
CONSTANTS
  MaxCmd = 2
  MaxEv = 0
  MaxLop = 0
  MaxPost = 2
  MaxDisc = 1
  ReplyShapes <- RS_two
  EventShapes <- ES_two
  EvNames <- N1
  Listeners <- L0
  SubmitKinds <- K2
  Loose = FALSE
  Dev <- DevStuck
INVARIANT FewEnough
PROPERTY EveryCommandResolves
PROPERTY QueueDrains
CHECK_DEADLOCK FALSE
