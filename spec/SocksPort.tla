------------------------------ MODULE SocksPort ------------------------------
(***************************************************************************)
(* Choosing a SOCKS port for client connections (endpoints.py              *)
(* _create_socks_endpoint, torconfig.py socks_endpoint /                   *)
(* create_socks_endpoint) and the well-known-port fallback of              *)
(* TorClientEndpoint.connect.  Property C18.  Used as an oracle over       *)
(* recorded vectors.                                                       *)
(***************************************************************************)
EXTENDS Naturals, Sequences, FiniteSets, TLC

CONSTANT Dev

\* --- part 1: discover-or-add ---
\* v.existing: the SOCKSPort lines as Tor reports them, each [line, first (first word), kind ("tcp"|"hostport"|"unix"|"zero"|"bad"), host, port, path]
\* v.requested: "" or the SOCKSPort value the caller wants
\* v.obs: [setconf (sequence of SOCKSPort values of the one SETCONF, or <<>>), nset (number of SETCONF commands),
\*         ep (the endpoint returned: [kind, host, port, path]), newport (a port the code allocated, 0 if none), err]
Usable(e) == e.kind \in {"tcp", "hostport", "unix"}
EpOf(e) == [kind |-> IF e.kind = "unix" THEN "unix" ELSE "tcp", host |-> e.host, port |-> e.port, path |-> e.path]
Lines(v) == [i \in 1..Len(v.existing) |-> v.existing[i].line]
\* the requested value is present: it names a configured line by its first word, or in full (options included), or -
\* both without option words - it denotes the same listener in another spelling (9052 for 127.0.0.1:9052)
Matching(v) == {i \in 1..Len(v.existing) :
                  \/ v.existing[i].first = v.requested
                  \/ v.existing[i].line = v.requested
                  \/ /\ Usable(v.existing[i]) /\ v.existing[i].line = v.existing[i].first /\ v.requested = v.reqfirst
                     /\ EpOf(v.existing[i]) = v.reqep}
\* v.twice: the same request is made a second time once the first has completed; obs covers both (nset counts every
\* SETCONF): the second finds the port present, so nothing is added to what the first one did
UsableIdx(v) == {i \in 1..Len(v.existing) : Usable(v.existing[i])}
\* known finding: "SOCKSPort 0" (SOCKS disabled) is taken for a usable port
ZeroIdx(v) == {i \in 1..Len(v.existing) : v.existing[i].kind = "zero"}

Holds18a(v) ==
  LET o == v.obs IN
  \* the default is in force but Tor refuses to say what it is: whatever else happens, the configuration is not touched
  IF v.lookupfails THEN o.nset = 0
  ELSE IF v.requested = ""
  THEN IF UsableIdx(v) # {}
       THEN \* one already configured is used, configuration untouched
            o.nset = 0 /\ ~o.err /\ \E i \in UsableIdx(v) : o.ep = EpOf(v.existing[i])
       ELSE \* none usable: exactly one SETCONF re-listing every existing line verbatim, in order, plus the new port
            /\ o.nset = 1 /\ ~o.err /\ o.newport > 0
            /\ Len(o.setconf) = Len(v.existing) + 1
            /\ SubSeq(o.setconf, 1, Len(v.existing)) = Lines(v)
            /\ o.setconf[Len(o.setconf)] = o.newtext
            /\ o.ep = [kind |-> "tcp", host |-> "127.0.0.1", port |-> o.newport, path |-> ""]
  ELSE IF Matching(v) # {}
       THEN o.nset = 0 /\ ~o.err /\ \E i \in Matching(v) : o.ep = EpOf(v.existing[i])
       ELSE /\ o.nset = 1 /\ ~o.err
            /\ o.setconf = Lines(v) \o <<v.requested>>
            /\ o.ep = v.reqep

\* known finding: TorConfig reads "SOCKSPort auto" as "the default", so on the TorConfig path an "auto" line is
\* re-listed as the default port
AutoAsDefault(v) == [i \in 1..Len(v.existing) |-> IF v.existing[i].line = "auto" THEN "9050" ELSE v.existing[i].line]
Explains18a(v) ==
  IF "c18_auto_relisted_as_default" \in Dev /\ v.path = "config" /\ v.requested # "" /\ Matching(v) = {}
     /\ (\E i \in 1..Len(v.existing) : v.existing[i].line = "auto")
     /\ v.obs.nset = 1 /\ v.obs.setconf = AutoAsDefault(v) \o <<v.requested>> /\ v.obs.ep = v.reqep
  THEN {"c18_auto_relisted_as_default"}
  ELSE IF "c18_zero_port_usable" \in Dev /\ v.requested = "" /\ UsableIdx(v) = {} /\ ZeroIdx(v) # {}
     /\ v.obs.nset = 0 /\ v.obs.ep = [kind |-> "tcp", host |-> "127.0.0.1", port |-> 0, path |-> ""]
  THEN {"c18_zero_port_usable"} ELSE {}

\* --- part 2: fallback over the well-known ports ---
\* v.outcomes: what connecting to each well-known port does, in order: "ok" | "connerr" | "other" | "socksfail" | "hangup"
\* v.obs: [tried (ports tried, in order), result ("ok" | "connerr" | "other"), which (index of the outcome reported)]
WellKnown == <<9050, 9150>>
FirstNot(outs) == IF \E i \in 1..Len(outs) : outs[i] # "connerr"
                  THEN CHOOSE i \in 1..Len(outs) : outs[i] # "connerr" /\ \A j \in 1..(i-1) : outs[j] = "connerr"
                  ELSE Len(outs)
\* "socksfail" (the TCP connection is made, the SOCKS request is refused) and "hangup" (made, then closed during
\* the negotiation) are not connection errors: that port had a listener, so the next one is not tried
Cat(o) == IF o \in {"socksfail", "hangup"} THEN "other" ELSE o
\* v.prior: the outcomes an earlier connect() on the same endpoint object met; what listens where may have changed
\* since, so every connect() goes through the ports afresh
Holds18b(v) ==
  LET k == FirstNot(v.outcomes) IN
  /\ v.obs.tried = SubSeq(WellKnown, 1, k)             \* in order, moving on only after a connection error
  /\ v.obs.result = Cat(v.outcomes[k])                  \* the first success / other error, or the LAST connection error
  /\ v.obs.which = k
=============================================================================
