SPECIFICATION Spec
CONSTANT MaxSteps = 13
INVARIANT TypeOK
INVARIANT AtMostOnce
INVARIANT SuccessOnlyAfterBootstrap
INVARIANT FailsIfEndedOrTimedOutFirst
INVARIANT TermOnTimeout
INVARIANT TempDirRemoved
INVARIANT UserDirKept
INVARIANT TempDirKeptWhileRunning
PROPERTY NoFlip
