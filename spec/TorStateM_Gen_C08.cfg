SPECIFICATION GSpec
CONSTANTS
  CircIds <- C2
  StreamIds <- S2
  Relays <- R3
  MaxPath = 2
  MaxPre = 3
  MaxEv = 40
  Listeners <- L2
  MaxUser = 12
  Waits <- W3
  Timed = TRUE
