------------------------------ MODULE OnionAdd ------------------------------
(***************************************************************************)
(* What ADD_ONION must carry for a requested ephemeral onion service, and  *)
(* who keeps the key afterwards (onion.py _add_ephemeral_service,          *)
(* EphemeralOnionService / EphemeralAuthenticatedOnionService.create,      *)
(* remove()).  Property C14.  Used as an oracle: TLC decides every         *)
(* recorded vector v = [req, obs].                                         *)
(***************************************************************************)
EXTENDS Naturals, Sequences, FiniteSets, TLC

SeqToSet(s) == {s[i] : i \in 1..Len(s)}

\* The request's surroundings, none of which changes what must be sent or who keeps the key (recorded in req):
\*   reuse      - the auth object has served another service before
\*   asyncports - local ports for int-form mappings are handed out on later reactor turns
\*   delfail    - Tor refuses the first DEL_ONION, the caller removes again
\*   viator     - through Tor.create_onion_service while the configuration is loading, next to another request
\*   history    - "removed": a service from the same caller-held key was run and removed on this connection before;
\*                "refused": Tor refused the first attempt to create a service from that key
\*                "single": the earlier service (run and removed, through the same Tor object) was a single-hop one
\*                (with via_tor both the earlier and the present creation go through one Tor object's create_onion_service)
Histories == {"removed", "refused", "single"}

\* req.key: [kind |-> "none" | "discard" | "bare" | "prefixed" | "crlf", type, body]
KeySpec(req) ==
  CASE req.key.kind \in {"none", "discard"} -> IF req.version = 3 THEN <<"NEW", "ED25519-V3">> ELSE <<"NEW", "BEST">>
    [] req.key.kind = "bare" -> IF req.version = 3 THEN <<"ED25519-V3", req.key.body>> ELSE <<"RSA1024", req.key.body>>
    [] OTHER -> <<req.key.type, req.key.body>>

Flags(req) == (IF req.detach THEN {"Detach"} ELSE {}) \cup (IF req.key.kind = "discard" THEN {"DiscardPK"} ELSE {})
              \cup (IF req.auth THEN {"BasicAuth"} ELSE {}) \cup (IF req.single THEN {"NonAnonymous"} ELSE {})

\* a request that cannot be honoured: line breaks in key material, or a key of the wrong type for the version
MustReject(req) == req.key.kind = "crlf"
MayReject(req) == req.key.kind = "prefixed" /\ ((req.version = 3) # (req.key.type = "ED25519-V3"))

\* custody: what the service object holds as its key afterwards (<<>> = nothing)
Stored(req, obs) ==
  CASE req.key.kind = "none" -> obs.replykey
    [] req.key.kind = "discard" -> <<>>
    [] OTHER -> KeySpec(req)

Holds14(v) ==
  LET req == v.req  obs == v.obs IN
  /\ ("history" \in DOMAIN req => req.history \in Histories)
  /\ IF MustReject(req) \/ (MayReject(req) /\ obs.rejected)
     THEN obs.rejected /\ obs.nadd = 0
     ELSE /\ ~obs.rejected /\ obs.nadd = 1
          /\ obs.key = KeySpec(req)
          /\ obs.ports = [i \in 1..Len(req.ports) |-> <<req.ports[i].pub, req.ports[i].loc>>]
          /\ SeqToSet(obs.flags) = Flags(req) /\ Len(obs.flags) = Cardinality(Flags(req))
          /\ obs.cauth = [i \in 1..Len(req.clients) |-> <<req.clients[i].name, req.clients[i].token, req.clients[i].given>>]   \* given: the caller supplied a token (even an empty one)
          /\ obs.hostname = obs.sid \o ".onion"
          /\ obs.stored = Stored(req, obs)
          /\ obs.after = obs.stored         \* the key stays with the caller's object after remove() (a restart re-creates from it)
          /\ obs.del = obs.sid
=============================================================================
