SPECIFICATION TSpec
CONSTANTS
  Relays <- TR
  Nicks <- TN
  IpSet = {1, 2}
  V6Set = {0, 1, 2}
  BwSet = {0, 1, 2, 3}
  MaxDocs = 0
CONSTRAINT Progress
POSTCONDITION Post
CHECK_DEADLOCK FALSE
