SPECIFICATION Spec
CONSTANTS
  MaxCmd = 3
  MaxEv = 0
  MaxLop = 0
  MaxPost = 1
  MaxDisc = 1
  ReplyShapes <- RS_two
  EventShapes <- ES_small
  EvNames <- N1
  Listeners <- L0
  SubmitKinds <- KClose
  Loose = FALSE
  Dev <- NoDev
INVARIANT TypeOK
INVARIANT WireFIFO
INVARIANT OneOutstanding
INVARIANT Outcomes
INVARIANT InProgressCb
INVARIANT NoExc
INVARIANT Deliveries
INVARIANT SetEventsExact
INVARIANT RegAgree
INVARIANT DiscNotified
PROPERTY ResolvedOnce
PROPERTY NoWriteAfterLoss
PROPERTY NoWriteWhileOutstanding
