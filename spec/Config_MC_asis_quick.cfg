SPECIFICATION Spec
CONSTANTS
  Scalars <- Sc1
  Lists <- Li1
  SVals <- SV
  Elems <- EL
  MaxLen = 2
  MaxOps = 2
  MaxSaves = 2
  MaxEvents = 1
  Dev <- Known
  Pairs2 = FALSE
  NoDef <- NoDef0
INVARIANT TypeOK
INVARIANT PendingExact
INVARIANT AfterAck
INVARIANT ViewIsTor
INVARIANT Tracked
