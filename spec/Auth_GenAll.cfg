SPECIFICATION GSpec
INVARIANT Emit
