---- MODULE OnionUp_MC ----
EXTENDS OnionUp
D2 == {"d1", "d2"}
D3 == {"d1", "d2", "d3"}
D4 == {"d1", "d2", "d3", "d4"}
NoDev == {}
Known == {"c15_foreign_uploaded"}
BareOnlyOwn == wait = "ok" => OwnOk # {}
====
