SPECIFICATION TSpec
CONSTANTS
  Dirs <- TD
  Dev <- TKnown
CONSTRAINT Progress
POSTCONDITION Post
CHECK_DEADLOCK FALSE
