SPECIFICATION Spec
CONSTANTS
  Relays <- R2
  Nicks <- N2
  IpSet = {1,2}
  V6Set = {0,1}
  BwSet = {0,1,2}
  MaxDocs = 2
INVARIANT ViewIsDoc
INVARIANT SerialsDistinct
PROPERTY IdentityKept
