------------------------------ MODULE KvLine_MC ------------------------------
(* The SETCONF grammar agrees with itself: for every list of pairs in a      *)
(* bounded space over the critical alphabet the reference encoding is one    *)
(* line that parses back to exactly those pairs (so C12 is satisfiable and   *)
(* the oracle does not demand the impossible).                               *)
EXTENDS KvLine
CONSTANTS MaxLen, MaxLen2
VARIABLE g
Alpha == {97, SP, TAB, DQ, BS, EQ, CR, LF}
Vals(n) == UNION {[1..k -> Alpha] : k \in 0..n}
Keys == {<<75>>, <<76, 111, 103>>}        \* "K", "Log"
GInit == \/ g \in {<< <<k, v>> >> : k \in Keys, v \in Vals(MaxLen)}
         \/ g \in {<< <<k, v>>, <<k2, w>> >> : k \in {<<75>>}, k2 \in Keys, v \in Vals(MaxLen2), w \in Vals(MaxLen2)}
GNext == UNCHANGED g
GSpec == GInit /\ [][GNext]_g
RoundTrip ==
  LET line == RefEncode(g)  p == ParseSetconf(line) IN p.ok /\ p.pairs = g /\ NoCRLF(line)
\* reply side: the GETINFO/GETCONF renderings contain no CR/LF inside a line and end with a final line
=============================================================================
