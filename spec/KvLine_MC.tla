------------------------------ MODULE KvLine_MC ------------------------------
(* The SETCONF grammar agrees with itself: for every list of pairs in a      *)
(* bounded space over the critical alphabet the reference encoding is one    *)
(* line that parses back to exactly those pairs (so C12 is satisfiable and   *)
(* the oracle does not demand the impossible).                               *)
EXTENDS KvLine
CONSTANTS MaxLen, MaxLen2
VARIABLE g
ZZ == 90                                  \* the filler byte of the long-line vectors
Alpha == {97, ZZ, SP, TAB, DQ, BS, EQ, CR, LF}
Vals(n) == UNION {[1..k -> Alpha] : k \in 0..n}
Vals2(n) == UNION {[1..k -> Alpha \ {97}] : k \in 0..n}     \* two-pair lists: the filler is the only ordinary byte
Keys == {<<75>>, <<76, 111, 103>>}        \* "K", "Log"
GInit == \/ g \in {<< <<k, v>> >> : k \in Keys, v \in Vals(MaxLen)}
         \/ g \in {<< <<k, v>>, <<k2, w>> >> : k \in {<<75>>}, k2 \in Keys, v \in Vals2(MaxLen2), w \in Vals2(MaxLen2)}
GNext == UNCHANGED g
GSpec == GInit /\ [][GNext]_g
RoundTrip ==
  LET line == RefEncode(g)  p == ParseSetconf(line) IN p.ok /\ p.pairs = g /\ NoCRLF(line)
\* The grammar is blind to the length of a run of filler bytes: stretching every filler byte of a line (well-formed
\* or not: the raw value of a one-pair list is taken as the unencoded tail of the line) stretches the parsed keys
\* and values in the same way and changes nothing else.  This is what lets the harness hand TLC a megabyte-long
\* command line with each long filler run shortened on both sides (lengths compared separately, Holds12 lruns/wruns).
RECURSIVE H(_)
H(s) == IF s = <<>> THEN <<>> ELSE (IF Head(s) = ZZ THEN <<ZZ, ZZ>> ELSE <<Head(s)>>) \o H(Tail(s))
HP(ps) == [i \in 1..Len(ps) |-> <<H(ps[i][1]), H(ps[i][2])>>]
RunBlind ==
  LET enc == RefEncode(g)
      raw == Setconf \o <<SP>> \o g[1][1] \o <<EQ>> \o g[1][2]
      Blind(l) == LET p == ParseSetconf(l)  q == ParseSetconf(H(l)) IN p.ok = q.ok /\ (p.ok => q.pairs = HP(p.pairs))
  IN Blind(enc) /\ Blind(raw)
\* reply side: the GETINFO/GETCONF renderings contain no CR/LF inside a line and end with a final line
=============================================================================
