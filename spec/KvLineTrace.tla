----------------------------- MODULE KvLineTrace -----------------------------
(* Every recorded vector (one per ndjson line; field p says which property)  *)
(* is decided by TLC with the KvLine grammar.                                *)
EXTENDS KvLine, Json, IOUtils, TLCExt
ASSUME TLCSet(3, ndJsonDeserialize(IOEnv.TRACE_FILE))
Vecs == TLCGet(3)
VARIABLES tid, verdict
TInit == tid \in 1..Len(Vecs) /\ verdict = "init"
Verdict(v) ==
  IF v.p = "C12" THEN (IF Holds12(v) THEN "ok" ELSE "bad")
  ELSE IF Holds13(v) THEN "ok" ELSE IF Explains13(v) # {} THEN "dev" ELSE IF ~WireOK(v) THEN "wire" ELSE "bad"
TNext == verdict = "init" /\ verdict' = Verdict(Vecs[tid]) /\ UNCHANGED tid
TSpec == TInit /\ [][TNext]_<<tid, verdict>>
ASSUME TLCSet(2, [t \in 1..Len(Vecs) |-> "none"])
Progress == verdict = "init" \/ TLCSet(2, [TLCGet(2) EXCEPT ![tid] = verdict])
Post == \A t \in 1..Len(Vecs) :
          LET vd == TLCGet(2)[t] IN
          PrintT(<<"TRACE", t, IF vd \in {"ok", "dev"} THEN 1 ELSE IF vd = "wire" THEN 2 ELSE 0, 1,
                   IF vd = "dev" THEN Explains13(Vecs[t]) ELSE {}>>)
=============================================================================
