SPECIFICATION GSpec
CONSTANTS
  Codes <- CodesAll
  MaxApp = 6
  MaxChunk = 12
  Loose = FALSE
