SPECIFICATION Spec
CONSTANTS
  Codes <- CodesAll
  MaxApp = 4
  MaxChunk = 30
  Loose = FALSE
INVARIANT NoAppBeforeSuccess
INVARIANT RelayedAll
INVARIANT Prompt
INVARIANT DoneOnce
INVARIANT Outcome
INVARIANT RequestAfterMethod
INVARIANT FailureReported
INVARIANT MethodFailureReported
INVARIANT NoExc
