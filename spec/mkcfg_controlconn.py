#!/usr/bin/env python3
"""Writes the ControlConn_*.cfg files (kept in git; rerun after editing)."""
import os
D = os.path.dirname(os.path.abspath(__file__))
INV = '''INVARIANT TypeOK
INVARIANT WireFIFO
INVARIANT OneOutstanding
INVARIANT Outcomes
INVARIANT InProgressCb
INVARIANT NoExc
INVARIANT Deliveries
INVARIANT SetEventsExact
INVARIANT RegAgree
INVARIANT DiscNotified
PROPERTY ResolvedOnce
PROPERTY NoWriteAfterLoss
PROPERTY NoWriteWhileOutstanding
'''


def cfg(name, spec="Spec", inv=INV, extra="", **k):
    k.setdefault("Dev", "NoDev")
    open(os.path.join(D, "ControlConn_%s.cfg" % name), "w").write('''SPECIFICATION %s
CONSTANTS
  MaxCmd = %s
  MaxEv = %s
  MaxLop = %s
  MaxPost = %s
  MaxDisc = %s
  ReplyShapes <- %s
  EventShapes <- %s
  EvNames <- %s
  Listeners <- %s
  SubmitKinds <- %s
  Loose = FALSE
  Dev <- %s
%s%s''' % (spec, k["MaxCmd"], k["MaxEv"], k["MaxLop"], k["MaxPost"], k["MaxDisc"], k["RS"], k["ES"],
           k["N"], k["L"], k.get("K", "K2"), k["Dev"], extra, inv))


# exhaustive design checks -------------------------------------------------
# C01: queue + line machine
cfg("MC_C01_quick", K="K2", MaxCmd=3, MaxEv=1, MaxLop=0, MaxPost=0, MaxDisc=0, RS="RS_small", ES="ES_small", N="N1", L="L0")
cfg("MC_C01_thorough", K="K2", MaxCmd=4, MaxEv=1, MaxLop=0, MaxPost=1, MaxDisc=0, RS="RS_big", ES="ES_small", N="N1", L="L0")
cfg("MC_C01_reent", K="K4", MaxCmd=2, MaxEv=0, MaxLop=0, MaxPost=1, MaxDisc=0, RS="RS_small", ES="ES_small", N="N1", L="L0")
# C02: events, listeners, SETEVENTS
cfg("MC_C02_quick", MaxCmd=1, MaxEv=2, MaxLop=2, MaxPost=0, MaxDisc=0, RS="RS_two", ES="ES_small", N="N1", L="L3")
cfg("MC_C02_thorough", MaxCmd=1, MaxEv=2, MaxLop=3, MaxPost=0, MaxDisc=0, RS="RS_two", ES="ES_small", N="N1", L="L3")
cfg("MC_C02_other", MaxCmd=1, MaxEv=1, MaxLop=3, MaxPost=0, MaxDisc=0, RS="RS_two", ES="ES_two", N="N1", L="L4")
cfg("MC_C02_adder", MaxCmd=1, MaxEv=2, MaxLop=2, MaxPost=0, MaxDisc=0, RS="RS_two", ES="ES_small", N="N1", L="LAdd")
cfg("MC_C02_killer", MaxCmd=1, MaxEv=2, MaxLop=2, MaxPost=0, MaxDisc=0, RS="RS_two", ES="ES_small", N="N1", L="LKill")
cfg("MC_C02_empty", MaxCmd=1, MaxEv=2, MaxLop=1, MaxPost=0, MaxDisc=0, RS="RS_two", ES="ES_empty", N="N1", L="L2")
cfg("MC_C02_names", MaxCmd=1, MaxEv=1, MaxLop=3, MaxPost=0, MaxDisc=0, RS="RS_two", ES="ES_two", N="N2", L="L2")
# C03: loss
cfg("MC_C03_quick", K="K3", MaxCmd=2, MaxEv=0, MaxLop=1, MaxPost=2, MaxDisc=1, RS="RS_two", ES="ES_small", N="N1", L="L2")
cfg("MC_C03_closer", K="KClose", MaxCmd=3, MaxEv=0, MaxLop=0, MaxPost=1, MaxDisc=1, RS="RS_two", ES="ES_small", N="N1", L="L0")
cfg("MC_C03_thorough", K="K3", MaxCmd=2, MaxEv=1, MaxLop=1, MaxPost=2, MaxDisc=2, RS="RS_two", ES="ES_two", N="N1", L="L2")
# historic defects as deviations: each must yield a counterexample
cfg("Dev_c02_cb_leak", MaxCmd=1, MaxEv=1, MaxLop=1, MaxPost=0, MaxDisc=0, RS="RS_two", ES="ES_small", N="N1", L="L2", Dev="DevLeak")
cfg("Dev_c02_skip", MaxCmd=1, MaxEv=1, MaxLop=2, MaxPost=0, MaxDisc=0, RS="RS_two", ES="ES_small", N="N1", L="L3", Dev="DevSkip")
cfg("Dev_c03_stuck", MaxCmd=2, MaxEv=0, MaxLop=0, MaxPost=2, MaxDisc=1, RS="RS_two", ES="ES_small", N="N1", L="L0", Dev="DevStuck")
# reachability probes (must be violated)
for probe in ("ProbeEventDuringCb", "ProbeLossMidBlock", "ProbeSelfRemoval"):
    cfg("Probe_" + probe, inv="INVARIANT %s\n" % probe, MaxCmd=2, MaxEv=1, MaxLop=2, MaxPost=0, MaxDisc=0,
        RS="RS_small", ES="ES_small", N="N1", L="L2")
# behaviour generation ----------------------------------------------------
cfg("Gen_C01", K="K4", spec="GSpec", inv="", extra="  AllowLose = FALSE\n", MaxCmd=5, MaxEv=0, MaxLop=0, MaxPost=0, MaxDisc=0,
    RS="RS_big", ES="ES_small", N="N1", L="L0")
cfg("Gen_C02", spec="GSpec", inv="", extra="  AllowLose = FALSE\n", MaxCmd=3, MaxEv=5, MaxLop=6, MaxPost=0, MaxDisc=0,
    RS="RS_small", ES="ES_big", N="N2", L="L7")
cfg("Gen_C03", K="K5", spec="GSpec", inv="", extra="  AllowLose = TRUE\n", MaxCmd=4, MaxEv=2, MaxLop=2, MaxPost=3, MaxDisc=2,
    RS="RS_big", ES="ES_big", N="N2", L="L5")
