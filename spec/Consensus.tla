------------------------------ MODULE Consensus ------------------------------
(***************************************************************************)
(* The relay view built from network-status documents (torstate.py         *)
(* _create_router / _update_network_status, _microdesc_parser.py).         *)
(* Property C16: after the initial listing or any replacement consensus    *)
(* the view equals the latest document, nothing carried over; relays       *)
(* present in consecutive documents keep their object identity.            *)
(***************************************************************************)
EXTENDS Naturals, Sequences, FiniteSets, TLC

CONSTANTS Relays,   \* relay identities (a sequence: document order)
          Nicks,    \* nicknames (duplicates possible)
          IpSet, V6Set, BwSet,   \* value domains of one entry (addresses, number of "a" lines, "w" value with 0 = no "w" line)
          MaxDocs   \* bound (model checking only)

FlagSets == {{}, {"guard"}, {"authority"}, {"guard", "authority"}}
\* what one document says about one relay
Absent == [here |-> FALSE, nick |-> "", ip |-> 0, flags |-> {}, v6 |-> 0, bw |-> 0, p |-> FALSE]
Entries == {Absent} \cup [here : {TRUE}, nick : Nicks, ip : IpSet, flags : FlagSets, v6 : V6Set, bw : BwSet, p : BOOLEAN]

VARIABLES
  doc,      \* the latest document: relay -> entry
  ndocs,
  view,     \* mechanism: relay -> [known, nick, ip, flags, v6, bw, serial]
  nextSerial

vars == <<doc, ndocs, view, nextSerial>>
RSet == {Relays[i] : i \in 1..Len(Relays)}
NoView == [known |-> FALSE, nick |-> "", ip |-> 0, flags |-> {}, v6 |-> 0, bw |-> 0, serial |-> 0]

Init == doc = [r \in RSet |-> Absent] /\ ndocs = 0 /\ view = [r \in RSet |-> NoView] /\ nextSerial = 1

\* serial numbers for relays that get a new object in this document, in document order
NewOnes(d) == SelectSeq(Relays, LAMBDA r : d[r].here /\ ~view[r].known)
IndexIn(s, x) == CHOOSE i \in 1..Len(s) : s[i] = x

\* a network-status document arrives (GETINFO ns/all at bootstrap, NEWCONSENSUS afterwards)
Document(d) ==
  /\ d \in [RSet -> Entries]
  /\ doc' = d /\ ndocs' = ndocs + 1
  /\ LET fresh == NewOnes(d) IN
       /\ view' = [r \in RSet |->
                     IF ~d[r].here THEN NoView
                     ELSE [known |-> TRUE, nick |-> d[r].nick, ip |-> d[r].ip, flags |-> d[r].flags, v6 |-> d[r].v6, bw |-> d[r].bw,
                           serial |-> IF view[r].known THEN view[r].serial ELSE nextSerial + IndexIn(fresh, r) - 1]]
       /\ nextSerial' = nextSerial + Len(fresh)

\* between documents relays are looked up by identity - directly, or because a circuit event names them
\* in its path - in any of the forms Tor uses ($hex, $hex~nick, $hex=nick), known to the latest
\* document or not: the view does not change
Lookup == UNCHANGED vars

Next == Lookup \/ \E d \in [RSet -> Entries] : Document(d) /\ ndocs < MaxDocs
Spec == Init /\ [][Next]_vars

----------------------------------------------------------------------------
\* C16: the relay set and every field equal the latest document
ViewIsDoc == \A r \in RSet :
   /\ view[r].known <=> doc[r].here
   /\ doc[r].here => view[r].nick = doc[r].nick /\ view[r].ip = doc[r].ip /\ view[r].flags = doc[r].flags
                      /\ view[r].v6 = doc[r].v6 /\ view[r].bw = doc[r].bw
\* derived views the harness observes against the same document
UniqueNick(n) == Cardinality({r \in RSet : doc[r].here /\ doc[r].nick = n}) = 1
ByNick(n) == IF UniqueNick(n) THEN CHOOSE r \in RSet : doc[r].here /\ doc[r].nick = n ELSE "none"
Guards == {r \in RSet : doc[r].here /\ "guard" \in doc[r].flags}
Authorities == {r \in RSet : doc[r].here /\ "authority" \in doc[r].flags}
\* known finding c16_authority_same_nick: the authority collection is keyed by nickname, so of several
\* authorities sharing a nickname only the one listed last is kept
Pos(r) == CHOOSE i \in 1..Len(Relays) : Relays[i] = r
AuthoritiesAsIs == {r \in Authorities : ~\E q \in Authorities : q # r /\ doc[q].nick = doc[r].nick /\ Pos(q) > Pos(r)}
\* identity: serials are unique among known relays
SerialsDistinct == \A a, b \in RSet : (view[a].known /\ view[b].known /\ a # b) => view[a].serial # view[b].serial
\* a relay present in consecutive documents keeps its object
IdentityKept == [][\A r \in RSet : (view[r].known /\ view'[r].known) => view'[r].serial = view[r].serial]_vars
=============================================================================
