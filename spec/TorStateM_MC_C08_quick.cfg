SPECIFICATION Spec
CONSTANTS
  CircIds <- C1
  StreamIds <- S1
  Relays <- R2
  MaxPath = 2
  MaxPre = 0
  MaxEv = 5
  Listeners <- L1
  MaxUser = 3
  Waits <- W2
  Timed = FALSE
INVARIANT TypeOK
INVARIANT CircuitsMatch
INVARIANT StreamsMatch
INVARIANT StreamDetails
INVARIANT AttachBothWays
INVARIANT NoExc
INVARIANT WaitsOnce
INVARIANT BuiltWaits
INVARIANT CloseWaits
INVARIANT TimedBuilds
