---- MODULE Launch_Gen ----
EXTENDS Launch
VARIABLE hist
H(r) == hist' = Append(hist, r)
GInit == Init /\ hist = <<>>
GNext ==
  /\ steps < MaxSteps
  /\ \/ \E m \in BOOLEAN : Stdout(m) /\ H([a |-> "Stdout", marker |-> m])
     \/ Stderr /\ H([a |-> "Stderr"])
     \/ \E h \in {"ok", "authfail", "refused"} : Connect(h) /\ H([a |-> "Connect", how |-> h])
     \/ \E ok \in BOOLEAN : CtlReply(ok) /\ H([a |-> "CtlReply", ok |-> ok])
     \/ \E p \in {10, 50, 100} : Progress(p) /\ H([a |-> "Progress", p |-> p])
     \/ Timeout /\ H([a |-> "Timeout"])
     \/ Exit /\ H([a |-> "Exit"])
GSpec == GInit /\ [][GNext]_<<vars, hist>>
====
