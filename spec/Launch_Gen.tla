---- MODULE Launch_Gen ----
EXTENDS Launch
VARIABLE hist
H(r) == hist' = Append(hist, r)
GInit == Init /\ hist = <<>>
GNext ==
  /\ steps < MaxSteps /\ ~shut
  /\ \/ Shutdown /\ UNCHANGED held /\ H([a |-> "Shutdown"])
     \/ ExitHeld /\ H([a |-> "ExitHeld"])
     \/ \E m \in BOOLEAN : ~held /\ Stdout(m) /\ UNCHANGED <<shut, held>> /\ H([a |-> "Stdout", marker |-> m])
     \/ ~held /\ Stderr /\ UNCHANGED <<shut, held>> /\ H([a |-> "Stderr"])
     \/ \E h \in {"ok", "authfail", "refused"} : ~held /\ Connect(h) /\ UNCHANGED <<shut, held>> /\ H([a |-> "Connect", how |-> h])
     \/ \E ok \in BOOLEAN : ~held /\ CtlReply(ok) /\ UNCHANGED <<shut, held>> /\ H([a |-> "CtlReply", ok |-> ok])
     \/ \E p \in {10, 50, 100} : ~held /\ Progress(p) /\ UNCHANGED <<shut, held>> /\ H([a |-> "Progress", p |-> p])
     \/ Timeout /\ UNCHANGED <<shut, held>> /\ H([a |-> "Timeout"])
     \/ Exit /\ UNCHANGED <<shut, held>> /\ H([a |-> "Exit"])
GSpec == GInit /\ [][GNext]_<<vars, hist>>
====
