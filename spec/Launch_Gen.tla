---- MODULE Launch_Gen ----
EXTENDS Launch
VARIABLE hist
H(r) == hist' = Append(hist, r)
GInit == Init /\ hist = <<>>
GNext ==
  /\ steps < MaxSteps /\ ~shut
  /\ \/ Shutdown /\ H([a |-> "Shutdown"])
     \/ \E m \in BOOLEAN : Stdout(m) /\ UNCHANGED shut /\ H([a |-> "Stdout", marker |-> m])
     \/ Stderr /\ UNCHANGED shut /\ H([a |-> "Stderr"])
     \/ \E h \in {"ok", "authfail", "refused"} : Connect(h) /\ UNCHANGED shut /\ H([a |-> "Connect", how |-> h])
     \/ \E ok \in BOOLEAN : CtlReply(ok) /\ UNCHANGED shut /\ H([a |-> "CtlReply", ok |-> ok])
     \/ \E p \in {10, 50, 100} : Progress(p) /\ UNCHANGED shut /\ H([a |-> "Progress", p |-> p])
     \/ Timeout /\ UNCHANGED shut /\ H([a |-> "Timeout"])
     \/ Exit /\ UNCHANGED shut /\ H([a |-> "Exit"])
GSpec == GInit /\ [][GNext]_<<vars, hist>>
====
