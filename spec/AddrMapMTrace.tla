---- MODULE AddrMapMTrace ----
(* Trace validation for AddrMapM: recorded executions of the real AddrMap on a virtual clock. *)
EXTENDS AddrMapM, Json, IOUtils, TLCExt
ASSUME TLCSet(3, ndJsonDeserialize(IOEnv.TRACE_FILE))
Traces == TLCGet(3)
ASSUME TLCSet(4, IF "VMODE" \in DOMAIN IOEnv THEN IOEnv.VMODE ELSE "full")
Mode == TLCGet(4)
TN == {"n1", "n2"}
TA == [n \in TN |-> IF n = "n1" THEN {"a1", "a2", "s"} ELSE {"b1", "b2", "s"}]
VARIABLES tid, l
ASSUME TLCSet(2, [t \in 1..Len(Traces) |-> 0])
ToSet(s) == {s[i] : i \in 1..Len(s)}
\* o.skip: when the map is fed through a TorState, the mappings Tor has at connection time (one GETINFO answer) and
\* the events that arrive while the controller is still bootstrapping cannot be observed one by one: the map is
\* compared once they are all in ("all": nothing comparable at this step; "log": the map, not the listener calls)
ObsOK(o) ==
  \/ o.skip = "all"
  \/ /\ \A n \in Names : o.names[n] = byName'[n].addr
     /\ \A a \in Addrs : o.addrs[a] = byAddr'[a]
     /\ \/ o.skip = "log"
        \/ /\ ToSet(o.log) = ToSet(log') /\ Len(o.log) = Len(log')
           /\ ((Len(log') = 2 /\ log'[1][1] = "added") => o.log = log')   \* "added" precedes "expired" within one event
PropsOK == FindIffLive' /\ FindsLatestAddr' /\ AddrKeys' /\ Counts'
Step(e) ==
  CASE e.a = "Event"   -> Event(e.n, e.addr, IF e.k = Never THEN Never ELSE now + e.k)
    [] e.a = "Advance" -> Advance(e.dt)
    [] OTHER -> FALSE
TInit == Init /\ tid \in 1..Len(Traces) /\ l = 1
TNext ==
  /\ l <= Len(Traces[tid].steps)
  /\ LET e == Traces[tid].steps[l] IN
       Step(e) /\ (Mode = "full" => ObsOK(e.obs)) /\ (Mode # "env" => PropsOK)
  /\ l' = l + 1 /\ UNCHANGED tid
TSpec == TInit /\ [][TNext]_<<vars, tid, l>>
Progress == TLCSet(2, [TLCGet(2) EXCEPT ![tid] = IF l - 1 > @ THEN l - 1 ELSE @])
Post == \A t \in 1..Len(Traces) : PrintT(<<"TRACE", t, TLCGet(2)[t], Len(Traces[t].steps), {}>>)
====
