------------------------------- MODULE AttachM -------------------------------
(***************************************************************************)
(* Stream attachment decisions (torstate.py _maybe_attach / set_attacher,  *)
(* circuit.py _CircuitAttacher / TorCircuitEndpoint).  Property C09.       *)
(*                                                                         *)
(* Environment: Tor reports new streams (normal, .exit target, first seen  *)
(* as a resolve) and circuit changes; the user installs / removes a        *)
(* scripted attacher whose answers are chosen by the environment           *)
(* (immediately, through a Deferred fired later, or from a coroutine), or  *)
(* makes connections through a specific circuit, identified by the local   *)
(* source port of their SOCKS connection.                                  *)
(*                                                                         *)
(* The installed attacher may also be a PriorityAttacher (attacher.py): a  *)
(* composition of sub-attachers added with a priority and removed again;   *)
(* they are consulted most important first (lower number; ties in the      *)
(* order they were added) and the first one with a preference decides.     *)
(***************************************************************************)
EXTENDS Naturals, Integers, Sequences, FiniteSets, TLC

CONSTANTS Circs,      \* circuit ids
          Streams,    \* stream ids
          Conns,      \* via-circuit connections
          Ports,      \* local source ports
          MaxSteps,   \* bound (model checking only)
          MaxSubs     \* sub-attachers a PriorityAttacher may hold (0: the composition is not explored)

CircAns == {"c1", "c2"}                  \* "the attacher returned circuit 1 / 2"
CircOfAns(a) == IF a = "c1" THEN 1 ELSE 2
Answers == {"none", "dna", "unknown", "noncirc"} \cup CircAns
Modes == {"imm", "def", "coro"}
Subs == {"x", "y", "z"}                  \* sub-attachers of the PriorityAttacher
Prios == 0..2
SubAnswers == {"none", "dna", "c1", "c2"}

VARIABLES
  att,      \* installed attacher: "none" | "A" (scripted) | "V" (the via-circuit attacher) | "P" (the PriorityAttacher)
  ps,       \* the PriorityAttacher's sub-attachers in the order they were added: <<[sub, prio]>>
  cons,     \* sub-attachers consulted in this step, in order
  told,     \* the last __LeaveStreamsUnattached value issued to Tor (-1: none yet)
  cs,       \* circuit id -> "none" | "BUILDING" | "BUILT" | "GONE"
  st,       \* stream -> [seen, kind, port, ans (pending deferred answer or "-"), dec (decisions sent), rep (errors reported), asked,
            \*            ref (Tor refused the decision command: reported as an error, nothing further is sent)]
  via,      \* conn -> [st: "idle"|"waitaddr"|"reg"|"done"|"refused", circ, port]
  wire,     \* commands written in this step
  hold,     \* the SETCONF that installs the via-circuit attacher has not been answered yet
  cq,       \* commands queued behind that SETCONF (one command is on the wire at a time)
  steps

vars == <<att, ps, cons, told, cs, st, via, wire, hold, cq, steps>>

S0 == [seen |-> FALSE, kind |-> "", port |-> 0, ans |-> "-", dec |-> <<>>, rep |-> 0, asked |-> 0, end |-> "", ref |-> 0]
V0 == [st |-> "idle", circ |-> 0, port |-> 0]

Init ==
  /\ att = "none" /\ cs = [c \in Circs |-> "none"]
  /\ st = [s \in Streams |-> S0] /\ via = [k \in Conns |-> V0]
  /\ wire = <<>> /\ hold = FALSE /\ cq = <<>> /\ steps = 0
  /\ ps = <<>> /\ cons = <<>> /\ told = -1

Tick == steps' = steps + 1 /\ cons' = <<>> /\ UNCHANGED ps
\* commands issued in a step reach the wire at once unless the connection is busy with the held SETCONF
Out(W) == IF hold THEN wire' = <<>> /\ cq' = cq \o W /\ UNCHANGED hold
                  ELSE wire' = W /\ UNCHANGED <<cq, hold>>

\* what _maybe_attach's issue_stream_attach does with the attacher's answer for stream s
Decide(s, a) ==
  CASE a = "none" -> [dec |-> <<0>>, rep |-> 0, w |-> << <<"ATTACHSTREAM", s, 0>> >>]
    [] a = "dna"  -> [dec |-> <<>>, rep |-> 0, w |-> <<>>]
    [] a \in {"unknown", "noncirc"} -> [dec |-> <<>>, rep |-> 1, w |-> <<>>]
    [] OTHER -> IF cs[CircOfAns(a)] = "BUILT" THEN [dec |-> <<CircOfAns(a)>>, rep |-> 0, w |-> << <<"ATTACHSTREAM", s, CircOfAns(a)>> >>]
                ELSE [dec |-> <<>>, rep |-> 1, w |-> <<>>]

\* the via-circuit attacher's answer for a stream from source port p
ViaFor(p) == {k \in Conns : via[k].st = "reg" /\ via[k].port = p}

\* Tor reports a stream we have not seen before
\* rf: Tor refuses the ATTACHSTREAM this step sends (the circuit went away inside Tor before its CIRC event reached us):
\* the refusal is reported, and that is all - the stream got its one decision
RefOK(rf, w) == rf \in BOOLEAN /\ (rf => (w # <<>> /\ ~hold))
NewStream(s, kind, p, a, mode, rf) ==
  /\ UNCHANGED told
  /\ ~st[s].seen /\ kind \in {"normal", "exit", "resolve"} /\ p \in Ports
  /\ a \in Answers /\ mode \in Modes /\ att # "P"
  /\ (rf => (att = "A" /\ kind # "exit" /\ mode # "def"))
  /\ IF att = "none" \/ kind = "exit"
     THEN /\ st' = [st EXCEPT ![s] = [S0 EXCEPT !.seen = TRUE, !.kind = kind, !.port = p]]
          /\ Out(<<>>) /\ UNCHANGED via
     ELSE IF att = "A"
     THEN IF mode = "def"
          THEN /\ st' = [st EXCEPT ![s] = [S0 EXCEPT !.seen = TRUE, !.kind = kind, !.port = p, !.ans = a, !.asked = 1]]
               /\ Out(<<>>) /\ UNCHANGED via
          ELSE LET d == Decide(s, a) IN
               /\ RefOK(rf, d.w)
               /\ st' = [st EXCEPT ![s] = [S0 EXCEPT !.seen = TRUE, !.kind = kind, !.port = p, !.dec = d.dec, !.rep = d.rep, !.asked = 1,
                                                   !.ref = IF rf THEN 1 ELSE 0]]
               /\ Out(d.w) /\ UNCHANGED via
     ELSE \* "V": matched by (local address, port); unrelated streams are left to Tor
          IF ViaFor(p) # {}
          THEN LET k == CHOOSE x \in ViaFor(p) : TRUE
                   ok == cs[via[k].circ] = "BUILT"
               IN /\ via' = [via EXCEPT ![k].st = IF ok THEN "done" ELSE "failed"]
                  /\ st' = [st EXCEPT ![s] = [S0 EXCEPT !.seen = TRUE, !.kind = kind, !.port = p, !.asked = 1,
                                                      !.dec = IF ok THEN <<via[k].circ>> ELSE <<0>>]]
                  /\ Out(<< <<"ATTACHSTREAM", s, IF ok THEN via[k].circ ELSE 0>> >>)
          ELSE /\ st' = [st EXCEPT ![s] = [S0 EXCEPT !.seen = TRUE, !.kind = kind, !.port = p, !.dec = <<0>>, !.asked = 1]]
               /\ Out(<< <<"ATTACHSTREAM", s, 0>> >>) /\ UNCHANGED via
  /\ Tick /\ UNCHANGED <<att, cs>>

\* ---- PriorityAttacher ----
\* consultation order: most important (lowest number) first, ties in the order of addition
Ord(q) == SelectSeq(q, LAMBDA e : e.prio = 0) \o SelectSeq(q, LAMBDA e : e.prio = 1) \o SelectSeq(q, LAMBDA e : e.prio = 2)
InPS(x) == \E i \in 1..Len(ps) : ps[i].sub = x
\* index (in consultation order) of the first sub-attacher that has a preference; 0 if none has
Winner(o, sa) == IF \E i \in 1..Len(o) : sa[o[i].sub] # "none"
                 THEN CHOOSE i \in 1..Len(o) : sa[o[i].sub] # "none" /\ \A j \in 1..(i - 1) : sa[o[j].sub] = "none"
                 ELSE 0
AddSub(x, pr) ==
  /\ UNCHANGED told
  /\ x \in Subs /\ pr \in Prios /\ ~InPS(x) /\ Len(ps) < MaxSubs
  /\ ps' = Append(ps, [sub |-> x, prio |-> pr])
  /\ steps' = steps + 1 /\ cons' = <<>> /\ Out(<<>>) /\ UNCHANGED <<att, cs, st, via>>
RemSub(x) ==
  /\ UNCHANGED told
  /\ InPS(x)
  /\ ps' = SelectSeq(ps, LAMBDA e : e.sub # x)
  /\ steps' = steps + 1 /\ cons' = <<>> /\ Out(<<>>) /\ UNCHANGED <<att, cs, st, via>>
\* Tor reports a new stream while the PriorityAttacher is installed; sa = what each sub-attacher would answer
NewStreamP(s, kind, p, sa, rf) ==
  /\ UNCHANGED told /\ (rf => kind # "exit")
  /\ att = "P" /\ ~st[s].seen /\ kind \in {"normal", "exit", "resolve"} /\ p \in Ports
  /\ sa \in [Subs -> SubAnswers]
  /\ IF kind = "exit"
     THEN /\ st' = [st EXCEPT ![s] = [S0 EXCEPT !.seen = TRUE, !.kind = kind, !.port = p]]
          /\ Out(<<>>) /\ cons' = <<>>
     ELSE LET o == Ord(ps)
              w == Winner(o, sa)
              d == Decide(s, IF w = 0 THEN "none" ELSE sa[o[w].sub])
          IN /\ RefOK(rf, d.w)
             /\ st' = [st EXCEPT ![s] = [S0 EXCEPT !.seen = TRUE, !.kind = kind, !.port = p, !.dec = d.dec, !.rep = d.rep, !.asked = 1,
                                                 !.ref = IF rf THEN 1 ELSE 0]]
             /\ Out(d.w)
             /\ cons' = [i \in 1..(IF w = 0 THEN Len(o) ELSE w) |-> o[i].sub]
  /\ steps' = steps + 1 /\ UNCHANGED <<att, ps, cs, via>>

\* the Deferred the scripted attacher returned fires
Answer(s, rf) ==
  /\ UNCHANGED told
  /\ st[s].seen /\ st[s].ans # "-"
  /\ LET d == Decide(s, st[s].ans) IN
       /\ RefOK(rf, d.w)
       /\ st' = [st EXCEPT ![s].ans = "-", ![s].dec = d.dec, ![s].rep = d.rep, ![s].ref = IF rf THEN 1 ELSE 0]
       /\ Out(d.w)
  /\ Tick /\ UNCHANGED <<att, cs, via>>

\* while the attacher's answer for a stream is outstanding Tor reports progress of that - still unattached - stream
\* (CONTROLLER_WAIT, which newer Tors send right after NEW; REMAP for an address it had cached): nothing is decided by
\* that; the answer, when it comes, still is the stream's one decision
StreamProgress(s, k) ==
  /\ UNCHANGED <<told, st>>
  /\ st[s].seen /\ st[s].ans # "-" /\ st[s].end = "" /\ k \in {"CONTROLLER_WAIT", "REMAP"}
  /\ Out(<<>>) /\ Tick /\ UNCHANGED <<att, cs, via>>

\* Tor reports a stream we know FAILED (it is forgotten), and afterwards CLOSED (for the view: an unknown
\* stream whose first event is terminal): neither is a new attachable stream, no decision is made
StreamFailed(s) ==
  /\ UNCHANGED told
  /\ st[s].seen /\ st[s].end = "" /\ st[s].ans = "-"
  /\ st' = [st EXCEPT ![s].end = "failed"]
  /\ Out(<<>>) /\ Tick /\ UNCHANGED <<att, cs, via>>
LateClosed(s) ==
  /\ UNCHANGED told
  /\ st[s].seen /\ st[s].end = "failed"
  /\ st' = [st EXCEPT ![s].end = "closed"]
  /\ Out(<<>>) /\ Tick /\ UNCHANGED <<att, cs, via>>

\* TorState.set_attacher.  late = Tor answers the installing SETCONF in a later step (ConfAck); whatever is
\* issued meanwhile - the removal's SETCONF included - waits behind it
SetAttacher(a, late) ==
  /\ a \in {"A", "B", "P", "none"} /\ (a = "P" => MaxSubs > 0)
  /\ late \in BOOLEAN /\ (late => att = "none" /\ a \in {"A", "P"})
  /\ ((att = "none" /\ a \in {"A", "P"}) => ~hold)      \* one installation at a time
  /\ told' = IF a = "none" THEN 0 ELSE IF att = "none" /\ a \in {"A", "P"} THEN 1 ELSE told
  /\ IF a = "none"
     THEN att' = "none" /\ Out(<< <<"SETCONF", 0, 0>> >>)
     ELSE IF att = "none" /\ a \in {"A", "P"}
     THEN att' = a /\ wire' = << <<"SETCONF", 0, 1>> >> /\ hold' = late /\ UNCHANGED cq
     ELSE \* the same attacher again: nothing; a different one (B, or A while V is installed): refused
          UNCHANGED att /\ Out(<<>>)
  /\ (a = "B" => att # "none")       \* B is only used as "a second, different attacher"
  /\ (a = "none" => att # "V")       \* the module-wide via-circuit attacher is never removed by the user
  /\ Tick /\ UNCHANGED <<cs, st, via>>

\* once the attacher is installed a connection waits until its circuit is BUILT; only then is the
\* underlying SOCKS connection started (so its stream cannot appear before the attacher knows it)
AfterConf(c) == IF cs[c] = "BUILT" THEN "waitaddr" ELSE IF cs[c] = "BUILDING" THEN "waitbuilt" ELSE "failed"

\* TorCircuitEndpoint.connect through circuit c.  The first such connection installs the module-wide
\* via-circuit attacher (SETCONF __LeaveStreamsUnattached=1) and goes on once Tor has answered;
\* late = Tor answers that SETCONF in a later step (ConfAck).  Connections made meanwhile share
\* the attacher that is being installed and go straight on.
ViaConnect(k, c, late) ==
  /\ via[k].st = "idle" /\ cs[c] \in {"BUILDING", "BUILT"}
  /\ att \notin {"A", "P"}      \* the via-circuit API and a user attacher are not mixed (documented as an error)
  /\ late \in BOOLEAN /\ (late => att = "none") /\ (att = "none" => ~hold)
  /\ via' = [via EXCEPT ![k] = [st |-> IF late THEN "waitconf" ELSE AfterConf(c), circ |-> c, port |-> 0]]
  /\ att' = "V" /\ told' = 1
  /\ IF att = "none"
     THEN wire' = << <<"SETCONF", 0, 1>> >> /\ hold' = late /\ UNCHANGED cq
     ELSE Out(<<>>)
  /\ Tick /\ UNCHANGED <<cs, st>>

\* Tor answers the held SETCONF: queued commands follow, the first connection goes on
ConfAck ==
  /\ UNCHANGED told
  /\ hold /\ hold' = FALSE /\ wire' = cq /\ cq' = <<>>
  /\ via' = [k \in Conns |-> IF via[k].st = "waitconf" THEN [via[k] EXCEPT !.st = AfterConf(via[k].circ)] ELSE via[k]]
  /\ Tick /\ UNCHANGED <<att, cs, st>>

\* the SOCKS connection of k is made from local port p
\* Ports above 5000 stand for the same port number on another source address (a client of a SocksPort bound to a
\* non-loopback address: 10.1.2.3:4001 is written 5001): our own SOCKS connections are local, so such a stream is
\* never one of ours even when the numbers coincide
Local(p) == p < 5000
ViaAddr(k, p) ==
  /\ UNCHANGED told
  /\ via[k].st = "waitaddr" /\ p \in Ports /\ Local(p)
  /\ \A j \in Conns : via[j].st = "reg" => via[j].port # p
  /\ \A s \in Streams : st[s].seen => st[s].port # p       \* the stream for this connection comes later
  /\ via' = [via EXCEPT ![k].st = "reg", ![k].port = p]
  /\ Out(<<>>) /\ Tick /\ UNCHANGED <<att, cs, st>>

\* circuits appear, get built, go away (circuits in use by a pending via connection stay)
CircStep(c, to) ==
  /\ UNCHANGED told
  /\ \/ cs[c] = "none" /\ to = "BUILDING"
     \/ cs[c] = "BUILDING" /\ to \in {"BUILT", "GONE"}
     \/ cs[c] = "BUILT" /\ to = "GONE" /\ \A k \in Conns : via[k].st \in {"waitconf", "waitaddr", "reg"} => via[k].circ # c
  /\ cs' = [cs EXCEPT ![c] = to]
  \* connections waiting for this circuit: BUILT starts their SOCKS connection, failure ends them
  /\ via' = [k \in Conns |-> IF via[k].st = "waitbuilt" /\ via[k].circ = c
                               THEN [via[k] EXCEPT !.st = IF to = "BUILT" THEN "waitaddr" ELSE "failed"] ELSE via[k]]
  /\ Out(<<>>) /\ Tick /\ UNCHANGED <<att, st>>

Next ==
  /\ steps < MaxSteps
  /\ \/ \E s \in Streams, kind \in {"normal", "exit", "resolve"}, p \in Ports, a \in Answers, mode \in Modes, rf \in BOOLEAN :
          NewStream(s, kind, p, a, mode, rf) /\ (att # "A" => a = "none" /\ mode = "imm")
     \/ \E s \in Streams : (\E rf \in BOOLEAN : Answer(s, rf)) \/ StreamFailed(s) \/ LateClosed(s) \/ StreamProgress(s, "CONTROLLER_WAIT") \/ StreamProgress(s, "REMAP")
     \/ \E a \in {"A", "B", "P", "none"}, late \in BOOLEAN : SetAttacher(a, late)
     \/ \E k \in Conns, c \in Circs, late \in BOOLEAN : ViaConnect(k, c, late)
     \/ ConfAck
     \/ \E k \in Conns, p \in Ports : ViaAddr(k, p)
     \/ \E c \in Circs, to \in {"BUILDING", "BUILT", "GONE"} : CircStep(c, to)
     \/ \E x \in Subs, pr \in Prios : AddSub(x, pr)
     \/ \E x \in Subs : RemSub(x)
     \/ \E s \in Streams, kind \in {"normal", "exit", "resolve"}, p \in Ports, sa \in [Subs -> SubAnswers], rf \in BOOLEAN : NewStreamP(s, kind, p, sa, rf)

Spec == Init /\ [][Next]_vars

----------------------------------------------------------------------------
\* C09: at most one decision per stream, and none without being asked
OneDecision == \A s \in Streams : /\ Len(st[s].dec) <= 1 /\ st[s].rep <= 1 /\ Len(st[s].dec) + st[s].rep <= st[s].asked
                                   /\ st[s].ref <= Len(st[s].dec)     \* (a refusal concerns the one decision that was sent)
\* .exit streams and streams seen without an attacher get nothing
NothingForExit == \A s \in Streams : (st[s].seen /\ st[s].kind = "exit") => st[s].dec = <<>> /\ st[s].asked = 0
\* a decision names 0 ("let Tor choose") or a circuit that was BUILT when it was sent
\* a stream whose source port belongs to via connection k is attached to exactly k's circuit;
\* streams from other ports are never attached to a via circuit by the via attacher
ViaExact ==
  \A k \in Conns : via[k].st = "done" =>
     \E s \in Streams : st[s].seen /\ st[s].port = via[k].port /\ st[s].dec = <<via[k].circ>>
Answered == \A s \in Streams : (st[s].seen /\ st[s].asked = 1 /\ st[s].ans = "-" /\ st[s].kind # "exit") =>
               (Len(st[s].dec) + st[s].rep = 1 \/ (st[s].dec = <<>> /\ st[s].rep = 0))
\* a via-circuit connection is never refused: every one made while the attacher is (being) installed shares it
ViaNeverRefused == \A k \in Conns : via[k].st \in {"idle", "waitconf", "waitbuilt", "waitaddr", "reg", "done", "failed"}
\* priority composition: a sub-attacher is consulted only if every more important one (and every equally important
\* one added earlier) was consulted before it in the same step
ConsultedInOrder ==
  \A i \in 1..Len(cons) : \A j \in 1..Len(ps) :
     LET me == CHOOSE m \in 1..Len(ps) : ps[m].sub = cons[i] IN
       (ps[j].prio < ps[me].prio \/ (ps[j].prio = ps[me].prio /\ j < me)) => \E h \in 1..(i - 1) : cons[h] = ps[j].sub
\* removing the attacher tells Tor to resume attaching streams itself (and installing one tells it to stop):
\* the last value issued always matches whether an attacher is installed
ToldMatches == IF att = "none" THEN told \in {-1, 0} ELSE told = 1
TypeOK == att \in {"none", "A", "V", "P"} /\ (~hold => cq = <<>>) /\ (hold => att \in {"V", "A", "P", "none"})
=============================================================================
