SPECIFICATION Spec
CONSTANTS
  MaxCmd = 2
  MaxEv = 1
  MaxLop = 2
  MaxPost = 0
  MaxDisc = 0
  ReplyShapes <- RS_small
  EventShapes <- ES_small
  EvNames <- N1
  Listeners <- L2
  SubmitKinds <- K2
  Loose = FALSE
  Dev <- NoDev
INVARIANT ProbeEventDuringCb
