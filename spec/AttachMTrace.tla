---- MODULE AttachMTrace ----
(* Trace validation for AttachM: recorded executions of TorState's attacher logic. *)
EXTENDS AttachM, Json, IOUtils, TLCExt
ASSUME TLCSet(3, ndJsonDeserialize(IOEnv.TRACE_FILE))
Traces == TLCGet(3)
ASSUME TLCSet(4, IF "VMODE" \in DOMAIN IOEnv THEN IOEnv.VMODE ELSE "full")
Mode == TLCGet(4)
TCirc == {1, 2}
TStr == {1, 2, 3}
TConn == {"k1", "k2"}
TPort == {4001, 4002, 4003, 5001, 5002, 5003}
ConnOrder == <<"k1", "k2">>
VARIABLES tid, l
ASSUME TLCSet(2, [t \in 1..Len(Traces) |-> 0])
ObsOK(o) ==
  /\ o.wire = wire'
  /\ o.att = att'
  /\ o.cons = cons'
  /\ \A s \in Streams : o.rep[s] = st'[s].rep + st'[s].ref
  \* waiting for the SETCONF answer and waiting for the circuit look the same from outside: not yet connecting
  /\ \A i \in 1..Len(ConnOrder) : o.via[i] = (IF via'[ConnOrder[i]].st \in {"waitconf", "waitbuilt"} THEN "wait" ELSE via'[ConnOrder[i]].st)
  /\ ~o.exc
PropsOK == ToldMatches' /\ ConsultedInOrder' /\ OneDecision' /\ NothingForExit' /\ ViaExact' /\ Answered' /\ ViaNeverRefused'
RF(e) == IF "rf" \in DOMAIN e THEN e.rf ELSE FALSE
Step(e) ==
  CASE e.a = "NewStream"   -> NewStream(e.s, e.kind, e.p, e.ans, e.mode, RF(e))
    [] e.a = "Answer"      -> Answer(e.s, RF(e))
    [] e.a = "StreamFailed" -> StreamFailed(e.s)
    [] e.a = "LateClosed"  -> LateClosed(e.s)
    [] e.a = "Progress"    -> StreamProgress(e.s, e.k)
    [] e.a = "SetAttacher" -> SetAttacher(e.who, IF "late" \in DOMAIN e THEN e.late ELSE FALSE)
    [] e.a = "ViaConnect"  -> ViaConnect(e.k, e.c, e.late)
    [] e.a = "ConfAck"     -> ConfAck
    [] e.a = "ViaAddr"     -> ViaAddr(e.k, e.p)
    [] e.a = "CircStep"    -> CircStep(e.c, e.to)
    [] e.a = "AddSub"      -> AddSub(e.x, e.prio)
    [] e.a = "RemSub"      -> RemSub(e.x)
    [] e.a = "NewStreamP"  -> NewStreamP(e.s, e.kind, e.p, e.sa, RF(e))
    [] OTHER -> FALSE
TInit == Init /\ tid \in 1..Len(Traces) /\ l = 1
TNext ==
  /\ l <= Len(Traces[tid].steps)
  /\ LET e == Traces[tid].steps[l] IN
       Step(e) /\ (Mode = "full" => ObsOK(e.obs)) /\ (Mode # "env" => PropsOK)
  /\ l' = l + 1 /\ UNCHANGED tid
TSpec == TInit /\ [][TNext]_<<vars, tid, l>>
Progress == TLCSet(2, [TLCGet(2) EXCEPT ![tid] = IF l - 1 > @ THEN l - 1 ELSE @])
Post == \A t \in 1..Len(Traces) : PrintT(<<"TRACE", t, TLCGet(2)[t], Len(Traces[t].steps), {}>>)
====
