SPECIFICATION Spec
CONSTANTS
  Dirs <- D2
  Dev <- Known
INVARIANT BareOnlyOwn
