SPECIFICATION GSpec
