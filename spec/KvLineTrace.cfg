SPECIFICATION TSpec
CONSTANTS Dev = {"c13_quotes_stripped", "c13_ok_line_dropped"}
CONSTRAINT Progress
POSTCONDITION Post
CHECK_DEADLOCK FALSE
