SPECIFICATION TSpec
CONSTANTS Dev = {"c18_zero_port_usable", "c18_auto_relisted_as_default"}
CONSTRAINT Progress
POSTCONDITION Post
CHECK_DEADLOCK FALSE
