---- MODULE OnionAddTrace ----
EXTENDS OnionAdd, Json, IOUtils, TLCExt
ASSUME TLCSet(3, ndJsonDeserialize(IOEnv.TRACE_FILE))
Vecs == TLCGet(3)
VARIABLES tid, verdict
TInit == tid \in 1..Len(Vecs) /\ verdict = "init"
TNext == verdict = "init" /\ verdict' = (IF Holds14(Vecs[tid]) THEN "ok" ELSE "bad") /\ UNCHANGED tid
TSpec == TInit /\ [][TNext]_<<tid, verdict>>
ASSUME TLCSet(2, [t \in 1..Len(Vecs) |-> "none"])
Progress == verdict = "init" \/ TLCSet(2, [TLCGet(2) EXCEPT ![tid] = verdict])
Post == \A t \in 1..Len(Vecs) : PrintT(<<"TRACE", t, IF TLCGet(2)[t] = "ok" THEN 1 ELSE 0, 1, {}>>)
====
