SPECIFICATION Spec
CONSTANT MaxSteps = 9
INVARIANT TypeOK
INVARIANT AtMostOnce
INVARIANT SuccessOnlyAfterBootstrap
INVARIANT FailsIfEndedOrTimedOutFirst
INVARIANT TermOnTimeout
INVARIANT TempDirRemoved
INVARIANT UserDirKept
INVARIANT TempDirKeptWhileRunning
PROPERTY NoFlip
