SPECIFICATION GSpec
CONSTANTS
  Scalars <- Sc2
  Lists <- Li2
  SVals <- SV
  Elems <- EL
  MaxLen = 3
  MaxOps = 8
  MaxSaves = 4
  MaxEvents = 8
  Dev <- Known
  Pairs2 = TRUE
  NoDef <- NoDef0
