---- MODULE AddrMapM_MC ----
EXTENDS AddrMapM
N2 == {"n1", "n2"}
A2 == [n \in N2 |-> IF n = "n1" THEN {"a1", "a2"} ELSE {"b1", "b2"}]
A2S == [n \in N2 |-> IF n = "n1" THEN {"a1", "s"} ELSE {"b1", "s"}]      \* one address shared by both names
N1 == {"n1"}
A1 == [n \in N1 |-> {"a1", "a2"}]
Off == {-1, 1, 2, 3}
Off5 == {-2, -1, 1, 2, 3, 5}
====
