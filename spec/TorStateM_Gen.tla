---- MODULE TorStateM_Gen ----
(* TorStateM with a history variable: TLC emits behaviours as stimulus scripts *)
EXTENDS TorStateM_MC
VARIABLE hist
H(r) == hist' = Append(hist, r)
CE(c, st) == [id |-> c, st |-> st, path |-> IF st \in {"CLOSED", "FAILED"} THEN tc[c].path ELSE tc'[c].path,
              pur |-> IF st \in {"CLOSED", "FAILED"} THEN tc[c].pur ELSE tc'[c].pur,
              bf |-> IF st \in {"CLOSED", "FAILED"} THEN tc[c].bf ELSE tc'[c].bf]
SE(s, st, circ, tgt, src) == [id |-> s, st |-> st, circ |-> circ, tgt |-> tgt, src |-> src]
GInit == Init /\ hist = <<>>
GTor ==
  \/ \E c \in CircIds, p \in Purposes, bf \in 1..2 : Launch(c, p, bf) /\ H([a |-> "Launch", ev |-> CE(c, "LAUNCHED")])
  \/ \E c \in CircIds, r \in Relays, p \in Purposes : Extend(c, r, p) /\ H([a |-> "Extend", ev |-> CE(c, "EXTENDED")])
  \/ \E c \in CircIds : Built(c) /\ H([a |-> "Built", ev |-> CE(c, "BUILT")])
  \/ \E c \in CircIds : CircGone(c) /\ H([a |-> "CircGone", ev |-> CE(c, IF tc[c].st = "BUILT" THEN "CLOSED" ELSE "FAILED")])
  \/ \E s \in StreamIds, st \in {"NEW", "NEWRESOLVE"}, t \in Targets, sa \in Srcs :
        StreamNew(s, st, t, sa) /\ H([a |-> "StreamNew", ev |-> SE(s, st, 0, t, sa)])
  \/ \E s \in StreamIds, c \in CircIds : SentConnect(s, c) /\ H([a |-> "SentConnect", ev |-> SE(s, "SENTCONNECT", c, ts[s].tgt, "")])
  \/ \E s \in StreamIds, ra \in RemapAddrs : Remap(s, ra) /\ H([a |-> "Remap", ev |-> SE(s, "REMAP", ts[s].circ, ra, "")])
  \/ \E s \in StreamIds : Succeeded(s) /\ H([a |-> "Succeeded", ev |-> SE(s, "SUCCEEDED", ts[s].circ, ts[s].tgt, "")])
  \/ \E s \in StreamIds : Detached(s) /\ H([a |-> "Detached", ev |-> SE(s, "DETACHED", ts[s].circ, ts[s].tgt, "")])
  \/ \E s \in StreamIds, how \in {"CLOSED", "FAILED"}, z \in BOOLEAN :
        StreamGone(s, how, z) /\ H([a |-> "StreamGone", z |-> z, ev |-> SE(s, how, ts[s].circ, ts[s].tgt, "")])
  \/ \E s \in StreamIds : LateClosed(s) /\ H([a |-> "LateClosed", ev |-> SE(s, "CLOSED", 0, ts[s].tgt, "")])
GUser ==
  \/ \E l \in Listeners : AddListener(l) /\ H([a |-> "AddListener", l |-> l])
  \/ \E l \in Listeners, c \in CircIds : UnlistenC(l, c) /\ H([a |-> "UnlistenC", l |-> l, id |-> c])
  \/ \E l \in Listeners, s \in StreamIds : UnlistenS(l, s) /\ H([a |-> "UnlistenS", l |-> l, id |-> s])
  \/ \E x \in Waits, c \in CircIds : WaitBuilt(x, c) /\ H([a |-> "WaitBuilt", x |-> x, id |-> c])
  \/ \E x \in Waits, c \in CircIds : WaitClosed(x, c) /\ H([a |-> "WaitClosed", x |-> x, id |-> c])
  \/ \E x \in Waits, c \in CircIds : CloseC(x, c) /\ H([a |-> "CloseC", x |-> x, id |-> c])
  \/ \E x \in Waits, s \in StreamIds : CloseS(x, s) /\ H([a |-> "CloseS", x |-> x, id |-> s])
  \/ \E x \in Waits, c \in CircIds, p \in Purposes, bf \in 1..2 : Build(x, c, p, bf) /\ H([a |-> "Build", x |-> x, id |-> c, pur |-> p, bf |-> bf])
  \/ \E x \in Waits, c \in CircIds, p \in Purposes, bf \in 1..2 : Timed /\ TimedBuild(x, c, p, bf) /\ H([a |-> "TimedBuild", x |-> x, id |-> c, pur |-> p, bf |-> bf])
  \/ \E x \in Waits : BuildTimeout(x) /\ H([a |-> "BuildTimeout", x |-> x])
GNext ==
  \/ GTor /\ (IF phase = "pre" THEN cnt.pre < MaxPre ELSE cnt.ev < MaxEv)
  \/ Snapshot /\ H([a |-> "Snapshot"])
  \/ GUser /\ cnt.user < MaxUser
  \/ Ack /\ H([a |-> "Ack"])
  \/ Nack /\ H([a |-> "Nack"])
GSpec == GInit /\ [][GNext]_<<vars, hist>>
====
