SPECIFICATION Spec
CONSTANTS
  Circs <- C2
  Streams <- S2
  Conns <- K0
  Ports <- P1
  MaxSteps = 8
  MaxSubs = 3
INVARIANT TypeOK
INVARIANT ConsultedInOrder
INVARIANT ToldMatches
INVARIANT OneDecision
INVARIANT NothingForExit
INVARIANT Answered
