SPECIFICATION GSpec
CONSTANT MaxSteps = 16
