---- MODULE OnionUp_Gen ----
EXTENDS OnionUp_MC, Sequences
VARIABLE hist
H(r) == hist' = Append(hist, r)
GInit == Init /\ hist = <<>>
GNext ==
  \/ Reply /\ H([a |-> "Reply"])
  \/ Refuse /\ H([a |-> "Refuse"])
  \/ Lose /\ H([a |-> "Lose"])
  \/ \E s \in Svcs, d \in Dirs : Upload(s, d) /\ H([a |-> "Upload", s |-> s, d |-> d])
  \/ \E s \in Svcs, d \in Dirs : Uploaded(s, d) /\ H([a |-> "Uploaded", s |-> s, d |-> d])
  \/ \E s \in Svcs, d \in Dirs : Failed(s, d) /\ H([a |-> "Failed", s |-> s, d |-> d])
  \/ \E s \in Svcs, d \in Dirs : FetchFailed(s, d) /\ H([a |-> "FetchFailed", s |-> s, d |-> d])
  \/ \E s \in Svcs, d \in Dirs, k \in {"CREATED", "RECEIVED"} : Notice(s, d, k) /\ H([a |-> "Notice", s |-> s, d |-> d, k |-> k])
  \/ \E s \in Svcs, d \in Dirs : FailedAgain(s, d) /\ H([a |-> "FailedAgain", s |-> s, d |-> d])
  \/ \E s \in Svcs, d \in Dirs : UploadedAgain(s, d) /\ H([a |-> "UploadedAgain", s |-> s, d |-> d])
GSpec == GInit /\ [][GNext]_<<vars, hist>>
====
