SPECIFICATION GSpec
CONSTANTS
  Dev = {}
  MaxLen = 4
  MaxLen2 = 3
INVARIANT RoundTrip
INVARIANT RunBlind
