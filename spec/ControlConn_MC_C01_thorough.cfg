SPECIFICATION Spec
CONSTANTS
  MaxCmd = 4
  MaxEv = 1
  MaxLop = 0
  MaxPost = 1
  MaxDisc = 0
  ReplyShapes <- RS_big
  EventShapes <- ES_small
  EvNames <- N1
  Listeners <- L0
  SubmitKinds <- K2
  Loose = FALSE
  Dev <- NoDev
INVARIANT TypeOK
INVARIANT WireFIFO
INVARIANT OneOutstanding
INVARIANT Outcomes
INVARIANT InProgressCb
INVARIANT NoExc
INVARIANT Deliveries
INVARIANT SetEventsExact
INVARIANT RegAgree
INVARIANT DiscNotified
PROPERTY ResolvedOnce
PROPERTY NoWriteAfterLoss
PROPERTY NoWriteWhileOutstanding
