---------------------------- MODULE ControlConn_MC ----------------------------
EXTENDS ControlConn
\* reply shapes: <<class, sequence of line kinds>>
RS_small == { <<"2", <<"sOK">> >>, <<"2", <<"m", "s">> >>, <<"2", <<"p", "d", ".", "sOK">> >>,
              <<"5", <<"s">> >>, <<"5", <<"m", "s">> >> }
ES_small == { <<"s">>, <<"mB", "m", "sOK">>, <<"p", "d", ".", "sOK">> }
ES_two == { <<"s">>, <<"pB", "d", ".", "sOK">> }
RS_big == RS_small \cup { <<"2", <<"s">> >>, <<"2", <<"m", "p", "dS", "dE", ".", "m", "sOK">> >>,
                          <<"2", <<"p", ".", "s">> >> }
ES_big == ES_small \cup { <<"sB">>, <<"pB", "dM", "d", ".", "sOK">>, <<"p", "d0", "d", "d0", ".", "sOK">> }
ES_empty == { <<"s">>, <<"p", "d0", ".", "sOK">>, <<"p", "d", "d0", ".", "sOK">> }
RS_two == { <<"2", <<"m", "sOK">> >>, <<"5", <<"s">> >> }
RS_three == { <<"2", <<"sOK">> >>, <<"2", <<"p", "d", ".", "s">> >>, <<"5", <<"m", "s">> >> }
L0 == {}
L2 == {"ok1", "self"}
L3 == {"ok1", "self", "raise"}
L4 == {"ok1", "ok2", "self", "other"}
L5 == {"ok1", "ok2", "self", "other", "raise"}
LAdd == {"ok1", "adder", "late"}
L7 == {"ok1", "ok2", "self", "other", "raise", "adder", "late", "killer"}
LKill == {"ok1", "self", "killer"}
N1 == {"EVA"}
N2 == {"EVA", "EVB"}
K2 == {"plain", "cb"}
K3 == {"plain", "cb", "retry"}
K4 == {"plain", "cb", "retry", "chain"}
K5 == {"plain", "cb", "retry", "chain", "closer"}
KClose == {"plain", "closer"}
NoDev == {}
DevLeak == {"c02_cb_leak"}
DevSkip == {"c02_skip"}
DevStuck == {"c03_stuck"}
=============================================================================
