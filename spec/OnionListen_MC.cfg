SPECIFICATION Spec
INVARIANT TypeOK
INVARIANT LoopbackOnly
INVARIANT AskedAfterBind
INVARIANT ResolvesLast
INVARIANT NoLeak
INVARIANT FailureIsInjected
INVARIANT Once
INVARIANT StopCloses
