----------------------------- MODULE SocksTrace -----------------------------
(* Trace validation for Socks: one recorded execution of the real SOCKS     *)
(* client per ndjson line: the scenario (what the server's stream contains) *)
(* and, per step, the chunk handed over and what was observed afterwards.   *)
EXTENDS Socks, Json, IOUtils, TLCExt

\* the file is read once (a plain definition would be re-evaluated, i.e. the file re-parsed, at every use)
ASSUME TLCSet(3, ndJsonDeserialize(IOEnv.TRACE_FILE))
Traces == TLCGet(3)
ASSUME TLCSet(4, IF "VMODE" \in DOMAIN IOEnv THEN IOEnv.VMODE ELSE "full")
Mode   == TLCGet(4)
VARIABLES tid, l
ASSUME TLCSet(2, [t \in 1..Len(Traces) |-> 0])

ObsOK(o) ==
  /\ o.sentReq = sentReq' /\ o.app = app' /\ o.appN = appN' /\ o.appW = appW'
  /\ o.done = done' /\ o.appLost = appLost' /\ o.exc = exc'   \* (o.closed is recorded but not part of the property)

PropsOK ==
  /\ NoAppBeforeSuccess' /\ RelayedAll' /\ Prompt' /\ DoneOnce' /\ Outcome'
  /\ RequestAfterMethod' /\ FailureReported' /\ MethodFailureReported' /\ NoExc'

Step(e) ==
  CASE e.a = "Deliver"    -> Deliver(e.n)
    [] e.a = "DeliverNested" -> DeliverNested(e.n, e.k)
    [] e.a = "DeliverReentrant" -> DeliverReentrant(e.n, e.k)
    [] e.a = "Disconnect" -> Disconnect
    [] e.a = "AppWrite"   -> AppWrite
    [] e.a = "AppClose"   -> AppClose
    [] OTHER -> FALSE

FailAts(s) == IF Success(s) THEN {8} ELSE 2..(IF RLen(s) > 8 THEN RLen(s) ELSE 8)
TInit ==
  /\ tid \in 1..Len(Traces) /\ l = 1
  /\ LET s == Traces[tid].scen
         b == [req |-> s.req, mrep |-> s.mrep, rver |-> s.rver, code |-> s.code, atyp |-> s.atyp,
               alen |-> s.alen, napp |-> s.napp, failAt |-> 8]
     IN /\ s.req \in {"CONNECT", "RESOLVE", "RESOLVE_PTR"} /\ s.mrep \in {"ok", "badver", "badmethod", "method2"}
        /\ s.rver \in BOOLEAN /\ s.code \in 0..255 /\ s.atyp \in {"v4", "v6", "dom", "unk"}
        /\ (s.req = "CONNECT" => s.atyp # "dom") /\ (s.req # "CONNECT" => s.napp = 0)
        /\ scen \in {[b EXCEPT !.failAt = f] : f \in FailAts(b)}
  /\ sync = Traces[tid].sync
  /\ InitRest

TNext ==
  /\ l <= Len(Traces[tid].steps)
  /\ LET e == Traces[tid].steps[l] IN
       /\ Step(e)
       /\ (Mode = "full" => ObsOK(e.obs))
       /\ (Mode # "env" => PropsOK)
  /\ l' = l + 1
  /\ UNCHANGED tid

TSpec == TInit /\ [][TNext]_<<vars, tid, l>>
Progress == TLCSet(2, [TLCGet(2) EXCEPT ![tid] = IF l - 1 > @ THEN l - 1 ELSE @])
Post == \A t \in 1..Len(Traces) : PrintT(<<"TRACE", t, TLCGet(2)[t], Len(Traces[t].steps), {}>>)
=============================================================================
