SPECIFICATION GSpec
CONSTANTS
  Scalars <- Sc2
  Lists <- Li2
  SVals <- SV
  Elems <- EL
  MaxLen = 3
  MaxOps = 14
  MaxSaves = 6
  MaxEvents = 0
  Dev <- Known
  Pairs2 = TRUE
  NoDef <- NoDef0
