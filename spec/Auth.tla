-------------------------------- MODULE Auth --------------------------------
(***************************************************************************)
(* Authentication and bootstrap of a control connection                    *)
(* (torcontrolprotocol.py connectionMade .. _bootstrap).  Property C04.    *)
(*                                                                         *)
(* A scenario fixes what Tor advertises, the state of the cookie file and  *)
(* the password provider; the server then chooses its behaviour at every   *)
(* step (correct / wrong hash, malformed reply, 5xx, disconnect).          *)
(***************************************************************************)
EXTENDS Naturals, Sequences, FiniteSets, TLC

Methods == {"SAFECOOKIE", "COOKIE", "HASHEDPASSWORD", "NULL"}
Cookies == {"nofield", "unreadable", "short", "long", "valid", "escaped"}
Providers == {"absent", "value", "empty", "defvalue", "deffail", "coro"}

VARIABLES
  scen,     \* [methods, cookie, pw]
  phase,    \* "init" | "pi" | "challenge" | "pwwait" | "pwwait_lost" | "authenticate" | "q1".."q4" | "end"
  wire,     \* commands written so far: sequence of <<command, argument class>>
  pwCalls,
  accepted, \* Tor accepted AUTHENTICATE
  hashOk,   \* the server proved knowledge of the cookie (AUTHCHALLENGE reply with the right hash)
  via,      \* method used: "" | "safecookie" | "cookie" | "password" | "null"
  ready,    \* the ready notification: "p" | "ok" | "err"
  nready,
  lost

vars == <<scen, phase, wire, pwCalls, accepted, hashOk, via, ready, nready, lost>>

CookieUsable(s) == s.cookie \in {"valid", "escaped"}
CookieAdvertised(s) == "SAFECOOKIE" \in s.methods \/ "COOKIE" \in s.methods
PwUsable(s) == s.pw # "absent" /\ "HASHEDPASSWORD" \in s.methods

\* what the client does once it knows the advertised methods
Choice(s) ==
  IF CookieAdvertised(s)
  THEN CASE s.cookie = "nofield" -> "fail"
         [] s.cookie = "unreadable" -> IF PwUsable(s) THEN "password" ELSE "fail"
         [] s.cookie \in {"short", "long"} -> "fail"
         [] OTHER -> IF "SAFECOOKIE" \in s.methods THEN "safecookie" ELSE "cookie"
  ELSE IF PwUsable(s) THEN "password"
  ELSE IF "NULL" \in s.methods THEN "null" ELSE "fail"

\* the best usable advertised method (what the statement's preference order demands)
Best(s) ==
  IF "SAFECOOKIE" \in s.methods /\ CookieUsable(s) THEN "safecookie"
  ELSE IF "COOKIE" \in s.methods /\ CookieUsable(s) THEN "cookie"
  ELSE IF PwUsable(s) THEN "password"
  ELSE IF "NULL" \in s.methods THEN "null" ELSE "none"

Init ==
  /\ scen \in [methods : SUBSET Methods, cookie : Cookies, pw : Providers]
  /\ phase = "init" /\ wire = <<>> /\ pwCalls = 0 /\ accepted = FALSE /\ hashOk = FALSE /\ via = ""
  /\ ready = "p" /\ nready = 0 /\ lost = FALSE

Fire(r) == ready' = r /\ nready' = nready + 1 /\ phase' = "end"
Send(c, a) == wire' = Append(wire, <<c, a>>)

Start == /\ phase = "init" /\ phase' = "pi" /\ Send("PROTOCOLINFO", "")
         /\ UNCHANGED <<scen, pwCalls, accepted, hashOk, via, ready, nready, lost>>

\* Tor answers PROTOCOLINFO
ReplyPI(k) ==
  /\ phase = "pi" /\ k \in {"ok", "noauth", "err"}
  /\ IF k # "ok" THEN Fire("err") /\ UNCHANGED <<wire, pwCalls, via>>
     ELSE LET c == Choice(scen) IN
       CASE c = "fail" -> Fire("err") /\ UNCHANGED <<wire, pwCalls, via>>
         [] c = "safecookie" -> Send("AUTHCHALLENGE", "nonce") /\ phase' = "challenge" /\ via' = c /\ UNCHANGED <<pwCalls, ready, nready>>
         [] c = "cookie" -> Send("AUTHENTICATE", "cookie") /\ phase' = "authenticate" /\ via' = c /\ UNCHANGED <<pwCalls, ready, nready>>
         [] c = "null" -> Send("AUTHENTICATE", "none") /\ phase' = "authenticate" /\ via' = c /\ UNCHANGED <<pwCalls, ready, nready>>
         [] OTHER -> \* password: the provider is consulted
              /\ pwCalls' = pwCalls + 1 /\ via' = "password"
              /\ CASE scen.pw \in {"value", "coro"} -> Send("AUTHENTICATE", "password") /\ phase' = "authenticate" /\ UNCHANGED <<ready, nready>>
                   [] scen.pw = "empty" -> Fire("err") /\ UNCHANGED wire
                   [] OTHER -> phase' = "pwwait" /\ UNCHANGED <<wire, ready, nready>>
  /\ UNCHANGED <<scen, accepted, hashOk, lost>>

\* the password provider's Deferred fires
PwResolve(ok) ==
  /\ phase \in {"pwwait", "pwwait_lost"} /\ ok = (scen.pw = "defvalue")
  /\ IF ok /\ phase = "pwwait" THEN Send("AUTHENTICATE", "password") /\ phase' = "authenticate" /\ UNCHANGED <<ready, nready>>
     ELSE Fire("err") /\ UNCHANGED wire
  /\ UNCHANGED <<scen, pwCalls, accepted, hashOk, via, lost>>

\* Tor answers AUTHCHALLENGE: with the right server hash, or with something that does not prove knowledge of
\* the cookie (another hash, a prefix of the right one, an empty one, the right one with extra bytes, the hash and
\* nonce it overheard on an earlier connection of the same controller process - "replay": nonces are fresh), ...
ReplyChallenge(k) ==
  /\ phase = "challenge" /\ k \in {"ok", "wronghash", "replay", "shorthash", "emptyhash", "longhash", "malformed", "err"}
  /\ IF k = "ok" THEN hashOk' = TRUE /\ Send("AUTHENTICATE", "proof") /\ phase' = "authenticate" /\ UNCHANGED <<ready, nready>>
     ELSE Fire("err") /\ UNCHANGED <<wire, hashOk>>
  /\ UNCHANGED <<scen, pwCalls, accepted, via, lost>>

\* Tor answers AUTHENTICATE
ReplyAuth(ok) ==
  /\ phase = "authenticate"
  /\ IF ok THEN accepted' = TRUE /\ Send("GETINFO", "signal/names") /\ phase' = "q1" /\ UNCHANGED <<ready, nready>>
     ELSE Fire("err") /\ UNCHANGED <<wire, accepted>>
  /\ UNCHANGED <<scen, pwCalls, hashOk, via, lost>>

\* the bootstrap queries: signal/names (an error is tolerated), version, events/names, USEFEATURE
ReplyQuery(ok) ==
  /\ phase \in {"q1", "q2", "q3", "q4"}
  /\ CASE phase = "q1" -> Send("GETINFO", "version") /\ phase' = "q2" /\ UNCHANGED <<ready, nready>>
       [] ~ok -> Fire("err") /\ UNCHANGED wire
       [] phase = "q2" -> Send("GETINFO", "events/names") /\ phase' = "q3" /\ UNCHANGED <<ready, nready>>
       [] phase = "q3" -> Send("USEFEATURE", "") /\ phase' = "q4" /\ UNCHANGED <<ready, nready>>
       [] OTHER -> Fire("ok") /\ UNCHANGED wire
  /\ UNCHANGED <<scen, pwCalls, accepted, hashOk, via, lost>>

\* the connection ends: Tor closes it in an orderly way (clean - what it does after refusing authentication
\* or when it shuts down) or it breaks; either way whatever is unanswered fails
Disconnect(clean) ==
  /\ clean \in BOOLEAN
  /\ ~lost /\ phase \notin {"init", "end"}
  /\ lost' = TRUE
  /\ IF phase = "pwwait" THEN phase' = "pwwait_lost" /\ UNCHANGED <<ready, nready>>      \* no command outstanding: decided when the provider answers
     ELSE Fire("err")
  /\ UNCHANGED <<scen, wire, pwCalls, accepted, hashOk, via>>

Next ==
  \/ Start
  \/ \E k \in {"ok", "noauth", "err"} : ReplyPI(k)
  \/ \E ok \in BOOLEAN : PwResolve(ok) \/ ReplyAuth(ok) \/ ReplyQuery(ok)
  \/ \E k \in {"ok", "wronghash", "replay", "shorthash", "emptyhash", "longhash", "malformed", "err"} : ReplyChallenge(k)
  \/ \E clean \in BOOLEAN : Disconnect(clean)

Spec == Init /\ [][Next]_vars

----------------------------------------------------------------------------
AuthCmds == {"PROTOCOLINFO", "AUTHCHALLENGE", "AUTHENTICATE"}
\* C04: nothing but the three authentication commands until Tor has accepted
OnlyAuthBeforeAccept == ~accepted => \A i \in 1..Len(wire) : wire[i][1] \in AuthCmds
\* C04: preference SAFECOOKIE > COOKIE > password > NULL among advertised and usable methods; refusing is allowed when a
\* cookie method is advertised but its cookie is unusable; a wrong-length cookie is always refused
MethodPreference ==
  /\ via # "" => via = Best(scen)
  /\ (CookieAdvertised(scen) /\ scen.cookie \in {"short", "long"}) => via = ""
\* C04: the provider is consulted only when no cookie method is usable
PasswordOnlyWithoutCookie == pwCalls > 0 => ~(CookieAdvertised(scen) /\ CookieUsable(scen))
PasswordAtMostOnce == pwCalls <= 1
\* C04: under SAFECOOKIE the proof goes out only after the server's hash was verified, and never the raw cookie
ProofDiscipline ==
  \A i \in 1..Len(wire) :
     /\ wire[i] = <<"AUTHENTICATE", "proof">> => hashOk
     /\ (via = "safecookie" /\ wire[i][1] = "AUTHENTICATE") => wire[i][2] = "proof"
     /\ wire[i] = <<"AUTHENTICATE", "cookie">> => via = "cookie"
\* C04: ready fires exactly once; success only after acceptance and the bootstrap queries
ReadyOnce == nready <= 1 /\ (ready = "p" <=> nready = 0)
ReadyOkOnlyAfterBootstrap == ready = "ok" => accepted /\ Len(wire) >= 5 /\ wire[Len(wire)][1] = "USEFEATURE"
Decided == phase = "end" <=> ready # "p"
TypeOK == ready \in {"p", "ok", "err"}
=============================================================================
