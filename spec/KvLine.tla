------------------------------- MODULE KvLine -------------------------------
(***************************************************************************)
(* Tor's control-port key=value grammar as TLA+ operators over bytes       *)
(* (Seq(0..255)), used as the oracle for                                   *)
(*   C12: the SETCONF line txtorcon writes, parsed with Tor's grammar,     *)
(*        yields exactly the given keys and values, on one line;           *)
(*   C13: GETINFO / GETCONF replies, rendered with Tor's reply grammar,    *)
(*        come back as exactly the values Tor sent.                        *)
(* Part A is the request side (kvline parser + a reference encoder so TLC  *)
(* can show the property is satisfiable), part B the reply side.           *)
(***************************************************************************)
EXTENDS Naturals, Sequences, FiniteSets, TLC

CONSTANT Dev      \* named deviations recorded as known findings

SP == 32  TAB == 9  CR == 13  LF == 10  DQ == 34  BS == 92  EQ == 61  SQ == 39  DOT == 46
IsWs(c) == c \in {SP, TAB}

----------------------------------------------------------------------------
(* Part A: SETCONF request line.                                            *)
(*   line  = "SETCONF" 1*( WS item )                                        *)
(*   item  = key [ "=" value ]                                              *)
(*   value = QuotedString (C-style escapes) | run of non-whitespace         *)

Hex(c) == IF c \in 48..57 THEN c - 48 ELSE IF c \in 97..102 THEN c - 87 ELSE IF c \in 65..70 THEN c - 55 ELSE 99
IsOct(c) == c \in 48..55

\* parse a quoted string starting after the opening quote at index i;
\* returns [ok, val, next] where next is the index after the closing quote
RECURSIVE QStr(_, _, _)
QStr(s, i, acc) ==
  IF i > Len(s) THEN [ok |-> FALSE, val |-> acc, next |-> i]
  ELSE IF s[i] = DQ THEN [ok |-> TRUE, val |-> acc, next |-> i + 1]
  ELSE IF s[i] # BS THEN QStr(s, i + 1, Append(acc, s[i]))
  ELSE IF i + 1 > Len(s) THEN [ok |-> FALSE, val |-> acc, next |-> i]
  ELSE LET c == s[i + 1] IN
       CASE c = 110 -> QStr(s, i + 2, Append(acc, LF))      \* \n
         [] c = 114 -> QStr(s, i + 2, Append(acc, CR))      \* \r
         [] c = 116 -> QStr(s, i + 2, Append(acc, TAB))     \* \t
         [] c = 120 /\ i + 3 <= Len(s) /\ Hex(s[i + 2]) < 16 /\ Hex(s[i + 3]) < 16 ->
              QStr(s, i + 4, Append(acc, Hex(s[i + 2]) * 16 + Hex(s[i + 3])))
         [] IsOct(c) /\ i + 3 <= Len(s) /\ IsOct(s[i + 2]) /\ IsOct(s[i + 3]) /\ (c - 48) < 4 ->
              QStr(s, i + 4, Append(acc, (c - 48) * 64 + (s[i + 2] - 48) * 8 + (s[i + 3] - 48)))
         [] OTHER -> QStr(s, i + 2, Append(acc, c))          \* \" \\ \' and any other escaped byte

RECURSIVE Bare(_, _, _)
Bare(s, i, acc) == IF i > Len(s) \/ IsWs(s[i]) THEN [val |-> acc, next |-> i] ELSE Bare(s, i + 1, Append(acc, s[i]))

RECURSIVE KeyEnd(_, _)
KeyEnd(s, i) == IF i > Len(s) \/ IsWs(s[i]) \/ s[i] = EQ THEN i ELSE KeyEnd(s, i + 1)

\* items from index i on; returns [ok, pairs] with pairs a sequence of <<key, value>>
RECURSIVE Items(_, _, _)
Items(s, i, acc) ==
  IF i > Len(s) THEN [ok |-> TRUE, pairs |-> acc]
  ELSE IF IsWs(s[i]) THEN Items(s, i + 1, acc)
  ELSE LET ke  == KeyEnd(s, i)
           key == SubSeq(s, i, ke - 1)
       IN IF key = <<>> THEN [ok |-> FALSE, pairs |-> acc]
          ELSE IF ke > Len(s) \/ s[ke] # EQ THEN Items(s, ke, Append(acc, <<key, <<>>>>))
          ELSE IF ke + 1 <= Len(s) /\ s[ke + 1] = DQ
               THEN LET q == QStr(s, ke + 2, <<>>) IN
                    IF ~q.ok \/ (q.next <= Len(s) /\ ~IsWs(s[q.next])) THEN [ok |-> FALSE, pairs |-> acc]
                    ELSE Items(s, q.next, Append(acc, <<key, q.val>>))
               ELSE LET b == Bare(s, ke + 1, <<>>) IN Items(s, b.next, Append(acc, <<key, b.val>>))

Setconf == <<83, 69, 84, 67, 79, 78, 70>>     \* "SETCONF"
IsPrefix(p, s) == Len(p) <= Len(s) /\ SubSeq(s, 1, Len(p)) = p
ParseSetconf(line) ==
  IF ~IsPrefix(Setconf, line) \/ (Len(line) > 7 /\ ~IsWs(line[8])) THEN [ok |-> FALSE, pairs |-> <<>>]
  ELSE Items(line, 8, <<>>)

Has(s, c) == \E i \in 1..Len(s) : s[i] = c
NoCRLF(s) == ~Has(s, CR) /\ ~Has(s, LF)

\* reference encoder: shows the property can be met (TLC: RoundTrip)
RECURSIVE Esc(_)
Esc(v) == IF v = <<>> THEN <<>>
          ELSE LET c == Head(v) IN
               (CASE c = BS -> <<BS, BS>> [] c = DQ -> <<BS, DQ>> [] c = LF -> <<BS, 110>> [] c = CR -> <<BS, 114>>
                  [] c = TAB -> <<BS, 116>> [] OTHER -> <<c>>) \o Esc(Tail(v))
NeedsQuote(v) == \E i \in 1..Len(v) : v[i] \in {SP, TAB, CR, LF, DQ, BS}
EncVal(v) == IF NeedsQuote(v) THEN <<DQ>> \o Esc(v) \o <<DQ>> ELSE v
RECURSIVE EncPairs(_)
EncPairs(ps) == IF ps = <<>> THEN <<>> ELSE <<SP>> \o ps[1][1] \o <<EQ>> \o EncVal(ps[1][2]) \o EncPairs(Tail(ps))
RefEncode(ps) == Setconf \o EncPairs(ps)

\* what C12 demands of one recorded call:
\*   v = [pairs (as str()-ed by the API), keysok (keys from the config-name alphabet), wrote (bytes written), err,
\*        lruns / wruns (lengths of the long filler runs in the pairs / in the bytes written)]
RECURSIVE SplitCRLF(_, _, _)
SplitCRLF(b, i, cur) ==    \* complete lines (terminated by CR LF) in b, plus the unterminated rest
  IF i > Len(b) THEN [lines |-> <<>>, rest |-> cur]
  ELSE IF b[i] = CR /\ i + 1 <= Len(b) /\ b[i + 1] = LF
       THEN LET r == SplitCRLF(b, i + 2, <<>>) IN [lines |-> <<cur>> \o r.lines, rest |-> r.rest]
       ELSE SplitCRLF(b, i + 1, Append(cur, b[i]))

Holds12(v) ==
  LET sp == SplitCRLF(v.wrote, 1, <<>>) IN
  \/ v.wrote = <<>> /\ v.err                        \* refused, nothing written
  \/ /\ ~v.err
     /\ Len(sp.lines) = 1 /\ sp.rest = <<>>          \* exactly one command line
     /\ NoCRLF(sp.lines[1])
     /\ (v.keysok => LET p == ParseSetconf(sp.lines[1]) IN p.ok /\ p.pairs = v.pairs)
     \* long-line vectors (a call of more than 2^20 bytes): every run of 1024 or more filler bytes is cut to four by the
     \* recorder, in the given pairs and in the bytes written alike (sound: KvLine_MC!RunBlind); the lengths of the runs
     \* are carried separately, in order - a run that is split, shortened or repeated, or a call divided over several
     \* lines because of its size, is rejected here or above
     /\ v.lruns = v.wruns

----------------------------------------------------------------------------
(* Part B: GETINFO / GETCONF replies.                                       *)
(* A reply is a sequence of wire lines (without CR LF).  Tor renders        *)
(*   GETINFO: single-line value   250-key=value                             *)
(*            multi-line value    250+key=  / data lines, dot-stuffed / .   *)
(*            then                250 OK                                    *)
(*   GETCONF: unset               250 Key                                   *)
(*            one value           250 Key=value                             *)
(*            several             250-Key=v1 ... 250 Key=vN                 *)
D250 == <<50, 53, 48>>
OKt == <<79, 75>>
Stuff(l) == IF l # <<>> /\ l[1] = DOT THEN <<DOT>> \o l ELSE l

\* kv = [key, block (BOOLEAN), lines (the value's lines; exactly one when ~block)]
RECURSIVE InfoLines(_)
InfoLines(kvs) ==
  IF kvs = <<>> THEN << D250 \o <<SP>> \o OKt >>
  ELSE LET kv == kvs[1] IN
       (IF kv.block
        THEN << D250 \o <<43>> \o kv.key \o <<EQ>> >> \o [i \in 1..Len(kv.lines) |-> Stuff(kv.lines[i])] \o << <<DOT>> >>
        ELSE << D250 \o <<45>> \o kv.key \o <<EQ>> \o kv.lines[1] >>)
       \o InfoLines(Tail(kvs))

ConfLines(key, unset, vals) ==
  IF unset THEN << D250 \o <<SP>> \o key >>
  ELSE [i \in 1..Len(vals) |-> D250 \o (IF i = Len(vals) THEN <<SP>> ELSE <<45>>) \o key \o <<EQ>> \o vals[i]]

RECURSIVE JoinLF(_)
JoinLF(ls) == IF ls = <<>> THEN <<>> ELSE IF Len(ls) = 1 THEN ls[1] ELSE ls[1] \o <<LF>> \o JoinLF(Tail(ls))

\* known findings, as transformations of the expected value
Strip(l) ==   \* Python's str.strip() for the bytes used here
  LET ws == {SP, TAB, CR, LF}
      f == IF \E i \in 1..Len(l) : l[i] \notin ws THEN CHOOSE i \in 1..Len(l) : l[i] \notin ws /\ \A j \in 1..(i-1) : l[j] \in ws ELSE 1
      t == IF \E i \in 1..Len(l) : l[i] \notin ws THEN CHOOSE i \in 1..Len(l) : l[i] \notin ws /\ \A j \in (i+1)..Len(l) : l[j] \in ws ELSE 0
  IN SubSeq(l, f, t)
DropOK(ls, D) == IF "c13_ok_line_dropped" \in D THEN SelectSeq(ls, LAMBDA l : Strip(l) # OKt) ELSE ls
Unq(val, D) ==
  IF "c13_quotes_stripped" \in D /\ val # <<>> /\ ((val[1] = DQ /\ val[Len(val)] = DQ) \/ (val[1] = SQ /\ val[Len(val)] = SQ))
  THEN SubSeq(val, 2, Len(val) - 1) ELSE val

\* acceptable results for one GETINFO key under deviation set D (a multi-line value may or may not
\* carry the single leading separator that follows "key=")
InfoVals(kv, D) ==
  IF kv.block THEN LET ls == DropOK(kv.lines, D) IN {Unq(<<LF>> \o JoinLF(ls), D), Unq(JoinLF(ls), D)}
  ELSE {Unq(kv.lines[1], D)}

\* v = [cmd, kvs | key/unset/vals, wire (lines the harness fed), res (what the API returned)]
\* res = sequence of [k |-> key bytes, t |-> "str" | "list" | "default", v |-> sequence of values]
WireOK(v) == v.wire = (IF v.cmd = "GETINFO" THEN InfoLines(v.kvs) ELSE ConfLines(v.key, v.unset, v.vals))

ResOK(v, D) ==
  IF v.cmd = "GETINFO"
  THEN /\ Len(v.res) = Len(v.kvs)
       /\ \A i \in 1..Len(v.kvs) :
            /\ v.res[i].k = v.kvs[i].key /\ v.res[i].t = "str" /\ Len(v.res[i].v) = 1
            /\ v.res[i].v[1] \in InfoVals(v.kvs[i], D)
  ELSE /\ Len(v.res) = 1 /\ v.res[1].k = v.key
       /\ IF v.unset THEN v.res[1].t = "default"
          ELSE IF Len(v.vals) = 1 THEN v.res[1].t = "str" /\ v.res[1].v = <<Unq(v.vals[1], D)>>
          ELSE v.res[1].t = "list" /\ v.res[1].v = [i \in 1..Len(v.vals) |-> Unq(v.vals[i], D)]

\* v.cut > 0: the last v.cut bytes of the reply (all of them inside its final line) never arrive - the connection is lost
\* instead: the call fails; a value made from the part that did arrive is not what Tor said
Failed(v) == Len(v.res) = 1 /\ v.res[1].t = "error"
Holds13(v) == IF v.cut > 0 THEN WireOK(v) /\ Failed(v) ELSE WireOK(v) /\ ResOK(v, {})
DevSets == {D \in SUBSET Dev : D # {}}
Explains13(v) ==
  IF v.cut = 0 /\ WireOK(v) /\ \E D \in DevSets : ResOK(v, D)
  THEN CHOOSE D \in DevSets : ResOK(v, D) /\ \A E \in DevSets : ResOK(v, E) => Cardinality(D) <= Cardinality(E)
  ELSE {}
=============================================================================
