------------------------------ MODULE SocksReq ------------------------------
(***************************************************************************)
(* RFC 1928 (plus Tor's RESOLVE / RESOLVE_PTR extension) client messages:  *)
(* the method-selection message and the request.  The grammar is written   *)
(* twice, independently - an encoder ReqBytes and a parser ParseReq - so   *)
(* that TLC can check the two against each other (RoundTrip) and then use  *)
(* ParseReq as the oracle for bytes recorded from txtorcon.  Property C06. *)
(***************************************************************************)
EXTENDS Naturals, Sequences, FiniteSets, TLC

CONSTANTS Dev   \* named deviations of txtorcon recorded as known findings

Greeting == <<5, 1, 0>>     \* version 5, one method, "no authentication required"

CmdOf(req) == CASE req = "CONNECT" -> 1 [] req = "RESOLVE" -> 240 [] req = "RESOLVE_PTR" -> 241

\* encoder
ReqBytes(cmd, atyp, addr, port) ==
  <<5, cmd, 0, atyp>> \o (IF atyp = 3 THEN <<Len(addr)>> ELSE <<>>) \o addr \o <<port \div 256, port % 256>>

\* parser (written from RFC 1928 section 4, independent of the encoder)
Bad == [ok |-> FALSE, cmd |-> 0, atyp |-> 0, addr |-> <<>>, port |-> 0, extra |-> 0]
ParseReq(b) ==
  IF Len(b) < 5 \/ b[1] # 5 \/ b[3] # 0 THEN Bad
  ELSE LET atyp == b[4]
           alen == CASE atyp = 1 -> 4 [] atyp = 4 -> 16 [] atyp = 3 -> b[5] [] OTHER -> 0
           off  == IF atyp = 3 THEN 5 ELSE 4      \* index of the byte before the address
       IN IF atyp \notin {1, 3, 4} \/ Len(b) < off + alen + 2 THEN Bad
          ELSE [ok |-> TRUE, cmd |-> b[2], atyp |-> atyp,
                addr |-> SubSeq(b, off + 1, off + alen),
                port |-> b[off + alen + 1] * 256 + b[off + alen + 2],
                extra |-> Len(b) - (off + alen + 2)]

\* --- the grammar agrees with itself (checked exhaustively over a boundary grid) ---
VARIABLE r
GridPorts == {0, 1, 255, 256, 257, 4660, 65279, 65280, 65535}
GridAddrs == { <<3, <<97>> >>, <<3, <<97, 46, 98>> >>, <<3, [i \in 1..255 |-> 97 + (i % 26)] >>,
               <<1, <<0, 0, 0, 0>> >>, <<1, <<255, 254, 1, 128>> >>,
               <<4, [i \in 1..16 |-> 0] >>, <<4, [i \in 1..16 |-> 16 * i - 1] >> }
GridInit == r \in [cmd : {1, 240, 241}, a : GridAddrs, port : GridPorts]
GridNext == UNCHANGED r
GridSpec == GridInit /\ [][GridNext]_r
RoundTrip ==
  LET b == ReqBytes(r.cmd, r.a[1], r.a[2], r.port)
      p == ParseReq(b)
  IN /\ p = [ok |-> TRUE, cmd |-> r.cmd, atyp |-> r.a[1], addr |-> r.a[2], port |-> r.port, extra |-> 0]
     /\ \A k \in 1..(Len(b) - 1) : ~ParseReq(SubSeq(b, 1, k)).ok      \* no proper prefix is a request
     /\ ParseReq(b \o <<0>>).extra = 1                                  \* trailing bytes are seen

\* --- what C06 demands of one recorded vector ---
\* v = [req, kind \in {"host","v4","v6","v6zone"}, name (bytes of the target text), addr (packed literal or <<>>),
\*      port, first (bytes sent before the method reply), second (bytes sent after it), err]
IsAscii(s) == \A i \in 1..Len(s) : s[i] < 128
Encodable(v) ==
  CASE v.kind = "host" -> Len(v.name) >= 1 /\ Len(v.name) <= 255 /\ IsAscii(v.name) /\ v.req # "RESOLVE_PTR"
    [] v.kind = "v6zone" -> FALSE      \* an IPv6 literal with a zone id (fe80::1%eth0): a SOCKS address cannot carry the zone
    [] OTHER -> TRUE

\* acceptable requests for v (a set: where the statement leaves a choice, all are listed)
Wanted(v) ==
  LET cmd == CmdOf(v.req) IN
  CASE v.kind = "host" -> {ReqBytes(cmd, 3, v.name, v.port)}
    [] v.kind = "v4" /\ v.req = "RESOLVE" -> {ReqBytes(cmd, 3, v.name, v.port), ReqBytes(cmd, 1, v.addr, v.port)}
    [] v.kind = "v6" /\ v.req = "RESOLVE" -> {ReqBytes(cmd, 3, v.name, v.port), ReqBytes(cmd, 4, v.addr, v.port)}
    [] v.kind = "v4" -> {ReqBytes(cmd, 1, v.addr, v.port)}
    [] v.kind = "v6" -> {ReqBytes(cmd, 4, v.addr, v.port)}

\* known finding F-C06a: IPv6 CONNECT carries only the first 4 address bytes
AsIsTruncV6(v) == <<5, 1, 0, 4>> \o SubSeq(v.addr, 1, 4) \o <<v.port \div 256, v.port % 256>>

\* v.sel: the server's method-selection message ("ok"/"split": no authentication, whole or in two
\* segments; anything else: another method, no acceptable method, a wrong version)
\* (every other value - a refusal, another method, a wrong version, and any of these followed by bytes that look like a
\* selection after all, and the loss of the connection before or inside the selection message followed by such bytes
\* (lost_ok, losthalf_ok) - is not a selection of 'no authentication')
Selected(v) == v.sel \in {"ok", "split", "sync", "coalesced"}     \* "sync": selected from inside the client's own write of the greeting;
\* "coalesced": the selection and the answer to the request arrive in one segment, and the application writes at once
Holds(v) ==
  /\ v.first = Greeting
  /\ v.mid = <<>>                       \* nothing is sent on a partial selection message
  /\ IF ~Selected(v) THEN v.second = <<>>      \* no request unless 'no authentication' was selected
     ELSE IF Encodable(v)
     THEN /\ v.second \in Wanted(v)
          /\ LET p == ParseReq(v.second) IN p.ok /\ p.extra = 0 /\ p.cmd = CmdOf(v.req)
     ELSE \* refused: nothing beyond the greeting, and an error surfaced - or, for a reverse lookup of a
          \* name, a well-formed domain request carrying exactly that name
          \/ v.second = <<>> /\ v.err
          \/ v.kind = "host" /\ v.req = "RESOLVE_PTR" /\ Len(v.name) \in 1..255 /\ IsAscii(v.name)
             /\ v.second = ReqBytes(241, 3, v.name, v.port)

DevExplains(v) ==
  IF "c06_v6_connect_trunc" \in Dev /\ v.req = "CONNECT" /\ v.kind = "v6"
     /\ v.first = Greeting /\ v.second = AsIsTruncV6(v)
  THEN {"c06_v6_connect_trunc"} ELSE {}
=============================================================================
