SPECIFICATION GSpec
CONSTANTS
  MaxCmd = 5
  MaxEv = 0
  MaxLop = 0
  MaxPost = 0
  MaxDisc = 0
  ReplyShapes <- RS_big
  EventShapes <- ES_small
  EvNames <- N1
  Listeners <- L0
  SubmitKinds <- K4
  Loose = FALSE
  Dev <- NoDev
  AllowLose = FALSE
