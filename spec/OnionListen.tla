----------------------------- MODULE OnionListen -----------------------------
(***************************************************************************)
(* listen() on an onion-service endpoint (endpoints.py                     *)
(* TCPHiddenServiceEndpoint.listen, TorOnionListeningPort).  Property C17. *)
(*                                                                         *)
(* The steps of one listen() call: obtain the configuration, bind a local  *)
(* listener, ask Tor to create the service (ADD_ONION for ephemeral,       *)
(* SETCONF for filesystem services), wait for a descriptor upload, return  *)
(* the port object.  The environment may inject one fault at each step.    *)
(***************************************************************************)
EXTENDS Naturals, Sequences, FiniteSets, TLC

Faults == {"none", "invalid", "config", "bind", "reject", "uploads", "disconnect_create", "disconnect_wait", "disconnect_unsub", "cancel_wait", "subscribe"}

VARIABLES
  cfgNow,    \* the configuration is available when listen() is called (no Deferred to wait for)
  fault,     \* the fault the environment will inject in this run
  others,    \* somebody else on this connection listens to HS_DESC events too (the application, another creation): giving up
             \* our subscription needs no exchange with Tor then
  step,      \* "idle" | "config" | "create" | "wait" | "unsub" | "done" | "failed"
  pendOut,   \* the outcome of the descriptor wait, delivered once the HS_DESC subscription has been given up ("" | "port" | "uploads" | "cancel")
  localOpen, \* a local listener is open
  loop,      \* it was bound on the loopback interface
  asked,     \* the creation command has been written (with the mapping public -> 127.0.0.1:<bound port>)
  exists,    \* Tor has created the service
  result,    \* "p" | "port" | "err"
  why,       \* which fault the error reports
  nres,      \* times the result fired
  stopped    \* stopListening() was called on the returned port object

vars == <<cfgNow, fault, others, step, pendOut, localOpen, loop, asked, exists, result, why, nres, stopped>>

Init == /\ cfgNow \in BOOLEAN /\ fault \in Faults /\ (cfgNow => fault # "config") /\ others \in BOOLEAN /\ (others => fault \notin {"disconnect_unsub", "subscribe"}) /\ step = "idle" /\ pendOut = "" /\ localOpen = FALSE /\ loop = FALSE /\ asked = FALSE /\ exists = FALSE
        /\ result = "p" /\ why = "" /\ nres = 0 /\ stopped = FALSE

Fail(w) == result' = "err" /\ why' = w /\ nres' = nres + 1 /\ step' = "failed"

\* an invalid combination of options is refused when the endpoint is built: nothing is started
Refuse == /\ step = "idle" /\ fault = "invalid" /\ Fail("invalid")
          /\ UNCHANGED <<cfgNow, fault, others, pendOut, localOpen, loop, asked, exists, stopped>>

\* once the configuration is there the local listener is bound and the creation command goes out,
\* all in one reactor turn
Proceed ==
  /\ IF fault = "config" THEN Fail("config") /\ UNCHANGED <<localOpen, loop, asked>>
     ELSE IF fault = "bind" THEN Fail("bind") /\ UNCHANGED <<localOpen, loop, asked>>
     ELSE /\ localOpen' = TRUE /\ loop' = TRUE /\ asked' = TRUE /\ step' = "create"
          /\ UNCHANGED <<result, why, nres>>
  /\ UNCHANGED <<cfgNow, fault, others, pendOut, exists, stopped>>

\* listen(factory) is called; the configuration may be a Deferred still pending
Listen == /\ step = "idle" /\ fault # "invalid"
          /\ IF cfgNow THEN Proceed
             ELSE step' = "config" /\ UNCHANGED <<cfgNow, fault, others, pendOut, localOpen, loop, asked, exists, result, why, nres, stopped>>

\* the configuration becomes available (or fails)
ConfigReady == step = "config" /\ Proceed

\* Tor answers the creation command
CreateReply ==
  /\ step = "create" /\ fault \notin {"disconnect_create"}
  /\ IF fault = "reject" THEN Fail("reject") /\ localOpen' = FALSE /\ UNCHANGED exists
     \* Tor has refused the subscription to its descriptor events (answered before the creation command): the descriptor
     \* wait has failed before it began, and listen fails with that error once the creation command is answered
     ELSE IF fault = "subscribe" THEN Fail("subscribe") /\ localOpen' = FALSE /\ exists' = TRUE
     ELSE exists' = TRUE /\ step' = "wait" /\ UNCHANGED <<localOpen, result, why, nres>>
  /\ UNCHANGED <<cfgNow, fault, others, pendOut, loop, asked, stopped>>

\* the control connection is lost while the creation command / the descriptor wait / the final
\* unsubscription is outstanding
Disconnect ==
  /\ \/ step = "create" /\ fault = "disconnect_create"
     \/ step = "wait" /\ fault = "disconnect_wait"
     \/ step = "unsub" /\ fault = "disconnect_unsub"
  /\ Fail("disconnect") /\ localOpen' = FALSE
  /\ UNCHANGED <<cfgNow, fault, others, pendOut, loop, asked, exists, stopped>>

\* the descriptor wait ends: one upload confirmed, or every upload failed.  The HS_DESC subscription is given
\* up (a control-port exchange) before the outcome is delivered
WaitOver ==
  /\ step = "wait" /\ fault \notin {"disconnect_wait", "cancel_wait"}
  /\ IF others
     THEN \* nothing to exchange with Tor: the outcome is delivered at once
          /\ IF fault = "uploads" THEN Fail("uploads") /\ localOpen' = FALSE
             ELSE result' = "port" /\ nres' = nres + 1 /\ step' = "done" /\ UNCHANGED <<localOpen, why>>
          /\ UNCHANGED pendOut
     ELSE /\ step' = "unsub" /\ pendOut' = IF fault = "uploads" THEN "uploads" ELSE "port"
          /\ UNCHANGED <<localOpen, result, why, nres>>
  /\ UNCHANGED <<cfgNow, fault, others, loop, asked, exists, stopped>>

\* the caller calls listen() off while the descriptor wait is going on (cancels the Deferred, e.g. through a timeout it
\* put on it): the wait ends there; the subscription is given up as after any wait, then listen fails and the local
\* listener is closed
Cancel ==
  /\ step = "wait" /\ fault = "cancel_wait"
  /\ IF others
     THEN Fail("cancel") /\ localOpen' = FALSE /\ UNCHANGED pendOut
     ELSE step' = "unsub" /\ pendOut' = "cancel" /\ UNCHANGED <<localOpen, result, why, nres>>
  /\ UNCHANGED <<cfgNow, fault, others, loop, asked, exists, stopped>>

\* Tor acknowledges the unsubscription
UnsubAck ==
  /\ step = "unsub" /\ fault # "disconnect_unsub"
  /\ IF pendOut \in {"uploads", "cancel"} THEN Fail(pendOut) /\ localOpen' = FALSE
     ELSE result' = "port" /\ nres' = nres + 1 /\ step' = "done" /\ UNCHANGED <<localOpen, why>>
  /\ UNCHANGED <<cfgNow, fault, others, pendOut, loop, asked, exists, stopped>>

StopListening ==
  /\ step = "done" /\ ~stopped /\ stopped' = TRUE /\ localOpen' = FALSE
  /\ UNCHANGED <<cfgNow, fault, others, step, pendOut, loop, asked, exists, result, why, nres>>

\* the application starts the returned port again (IListeningPort.startListening): the loopback listener is back,
\* and a later stopListening closes it again
StartListening ==
  /\ step = "done" /\ stopped /\ stopped' = FALSE /\ localOpen' = TRUE
  /\ UNCHANGED <<cfgNow, fault, others, step, pendOut, loop, asked, exists, result, why, nres>>

\* listen() is called again on the same endpoint object (Twisted endpoints may be listened on repeatedly: a retry, a
\* service that is restarted); the configuration is there by now.
\*  - after a refused creation: everything again - a new local listener, Tor asked to forward to that one
\*  - after the port object of a successful listen() was stopped: the service exists and keeps forwarding to the local
\*    port bound then, Tor is not asked again: the listener is bound on that very port again and listen resolves at once
\*    (the trace specification compares the port bound now with the mapping Tor was given)
Relisten ==
  /\ \/ step = "failed" /\ fault = "reject"
     \/ step = "done" /\ stopped
  /\ IF step = "failed"
     THEN /\ fault' = "none" /\ cfgNow' = TRUE /\ step' = "create" /\ localOpen' = TRUE /\ loop' = TRUE /\ asked' = TRUE
          /\ result' = "p" /\ why' = "" /\ nres' = 0 /\ stopped' = FALSE
          /\ UNCHANGED <<others, pendOut, exists>>
     ELSE /\ localOpen' = TRUE /\ stopped' = FALSE /\ result' = "port" /\ nres' = 1
          /\ UNCHANGED <<cfgNow, fault, others, step, pendOut, loop, asked, exists, why>>

\* ... but the local port the existing service forwards to cannot be bound this time (somebody else has it): listen fails
\* with that error and nothing is left open - a listener on any other port would be one Tor does not forward to
RelistenBusy ==
  /\ step = "done" /\ stopped
  /\ result' = "err" /\ why' = "bind" /\ nres' = 1 /\ step' = "failed"        \* (the outcome of this call, counted anew)
  /\ localOpen' = FALSE /\ fault' = "bind" /\ stopped' = FALSE
  /\ UNCHANGED <<cfgNow, others, pendOut, loop, asked, exists>>

\* descriptor events of another onion service on the same Tor arrive: nothing changes for this listen()
Foreign == UNCHANGED vars
\* likewise a failed *fetch* of this service's descriptor (somebody looked the address up before it was published):
\* Tor reports it with the same event word and our address; it is not an upload and decides nothing
FetchFailed == UNCHANGED vars

Next == Foreign \/ FetchFailed \/ Refuse \/ Listen \/ ConfigReady \/ CreateReply \/ Disconnect \/ WaitOver \/ Cancel \/ UnsubAck \/ StopListening \/ StartListening \/ Relisten \/ RelistenBusy
Spec == Init /\ [][Next]_vars

----------------------------------------------------------------------------
\* C17: loopback only; Tor is asked only once the local listener exists
LoopbackOnly == localOpen => loop
AskedAfterBind == asked => loop
\* C17: resolves only after the service exists and its descriptor wait is over
ResolvesLast == result = "port" => exists /\ step = "done"
\* C17: a failure reports the injected fault and leaves no local listener open
NoLeak == result = "err" => ~localOpen
FailureIsInjected == result = "err" => why = (IF fault \in {"disconnect_create", "disconnect_wait", "disconnect_unsub"} THEN "disconnect" ELSE IF fault = "cancel_wait" THEN "cancel" ELSE fault)
Once == nres <= 1
StopCloses == stopped => ~localOpen
TypeOK == step \in {"idle", "config", "create", "wait", "unsub", "done", "failed"}
=============================================================================
