---- MODULE Config_MC ----
EXTENDS Config
Sc1 == {"s1"}
Li1 == {"l1"}
Sc2 == {"s1", "s2"}
Li2 == {"l1", "l2"}
SV == {"a", "b"}
EL == {"x", "y"}
NoDev == {}
NoDef0 == {}
NoDefL1 == {"l1"}
Known == {"c10_emptied_list_not_cleared", "c10_edits_during_save_lost"}
DEmpt == {"c10_emptied_list_not_cleared"}
DLost == {"c10_edits_during_save_lost"}
DDef == {"c11_default_marker"}
\* the bare properties (no "or a deviation was used")
BarePending == phase = "attached" /\ ~busy => SeqToSet(pend) = SeqToSet(dirty) /\ \A o \in SeqToSet(pend) : pval[o] = intent[o]
BareAfterAck == (phase = "attached" /\ ~busy /\ dirty = <<>> /\ evq = <<>>) =>
                  \A o \in Options : /\ (view[o] = intent[o] \/ (intent[o] = <<>> /\ tor[o] = <<>> /\ view[o] = Def(o)))
                                      /\ (tor[o] = intent[o] \/ (tor[o] = <<>> /\ intent[o] \in {<<>>, Def(o)}))
====
