---- MODULE AddrMapM_Gen ----
EXTENDS AddrMapM_MC
VARIABLE hist
GInit == Init /\ hist = <<>>
GNext ==
  \/ \E n \in Names, a \in Addrs \cup {"<error>"}, k \in Offsets \cup {Never} :
        /\ Event(n, a, IF k = Never THEN Never ELSE now + k)
        /\ hist' = Append(hist, [a |-> "Event", n |-> n, addr |-> a, k |-> k])
  \/ \E dt \in 0..3 : Advance(dt) /\ now + dt <= MaxNow /\ hist' = Append(hist, [a |-> "Advance", dt |-> dt])
GSpec == GInit /\ [][GNext]_<<vars, hist>>
====
