---- MODULE OnionUpTrace ----
(* Trace validation for OnionUp: recorded executions of the real onion-service creation. *)
EXTENDS OnionUp, Json, IOUtils, TLCExt, Sequences
ASSUME TLCSet(3, ndJsonDeserialize(IOEnv.TRACE_FILE))
Traces == TLCGet(3)
ASSUME TLCSet(4, IF "VMODE" \in DOMAIN IOEnv THEN IOEnv.VMODE ELSE "full")
Mode == TLCGet(4)
TD == {"d1", "d2", "d3", "d4"}
TKnown == {"c15_foreign_uploaded"}
VARIABLES tid, l
ASSUME TLCSet(2, [t \in 1..Len(Traces) |-> 0])
ASSUME TLCSet(5, [t \in 1..Len(Traces) |-> {}])
ObsOK(o) == o.created = created' /\ o.n = (IF created' = "p" THEN 0 ELSE 1) /\ o.subscribed = subscribed' /\ ~o.exc
PropsOK == ((wait = "p" /\ wait' = "err" /\ ~lost') => OwnFailed' # {}) /\ OnlyAfterOwnSuccess' /\ AtMostOnce' /\ Unsubscribed' /\ PendingMeansOutstanding' /\ Creation' /\ GoneAfterFailure'
           /\ ((wait = "p" /\ wait' = "ok" /\ mode = "all" /\ Regular /\ devUsed' = {}) => OwnStarted' = {} /\ OwnOk' # {})
           /\ ((wait = "p" /\ wait' = "err" /\ ~lost' /\ Regular /\ devUsed' = {}) => OwnOk' = {} /\ OwnStarted' = {})
Step(e) ==
  CASE e.a = "Reply"    -> Reply
    [] e.a = "Refuse"   -> Refuse
    [] e.a = "Lose"     -> Lose
    [] e.a = "Upload"   -> Upload(e.s, e.d)
    [] e.a = "Uploaded" -> Uploaded(e.s, e.d)
    [] e.a = "Failed"   -> Failed(e.s, e.d)
    [] e.a = "FetchFailed" -> FetchFailed(e.s, e.d)
    [] e.a = "Notice" -> Notice(e.s, e.d, e.k)
    [] e.a = "FailedAgain" -> FailedAgain(e.s, e.d)
    [] e.a = "UploadedAgain" -> UploadedAgain(e.s, e.d)
    [] OTHER -> FALSE
TInit == Init /\ tid \in 1..Len(Traces) /\ l = 1 /\ mode = Traces[tid].mode /\ hostEarly = Traces[tid].he
TNext ==
  /\ l <= Len(Traces[tid].steps)
  /\ LET e == Traces[tid].steps[l] IN
       Step(e) /\ (Mode = "full" => ObsOK(e.obs)) /\ (Mode # "env" => PropsOK)
  /\ l' = l + 1 /\ UNCHANGED tid
TSpec == TInit /\ [][TNext]_<<vars, tid, l>>
Progress == /\ TLCSet(2, [TLCGet(2) EXCEPT ![tid] = IF l - 1 > @ THEN l - 1 ELSE @])
            /\ TLCSet(5, [TLCGet(5) EXCEPT ![tid] = @ \cup devUsed])
Post == \A t \in 1..Len(Traces) : PrintT(<<"TRACE", t, TLCGet(2)[t], Len(Traces[t].steps), TLCGet(5)[t]>>)
====
