SPECIFICATION Spec
CONSTANTS
  Circs <- C2
  Streams <- S2
  Conns <- K2
  Ports <- P2
  MaxSteps = 9
  MaxSubs = 0
INVARIANT TypeOK
INVARIANT ConsultedInOrder
INVARIANT ToldMatches
INVARIANT OneDecision
INVARIANT NothingForExit
INVARIANT ViaExact
INVARIANT Answered
INVARIANT ViaNeverRefused
