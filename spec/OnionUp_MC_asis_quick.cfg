SPECIFICATION Spec
CONSTANTS
  Dirs <- D2
  Dev <- Known
INVARIANT TypeOK
INVARIANT OnlyAfterOwnSuccess
INVARIANT AtMostOnce
INVARIANT Unsubscribed
INVARIANT PendingMeansOutstanding
INVARIANT Creation
INVARIANT GoneAfterFailure
PROPERTY AwaitAllAtCompletion
PROPERTY FailsOnlyIfAllFailed
PROPERTY FailureNeedsFailedUpload
PROPERTY ForeignInert
