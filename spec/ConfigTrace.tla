---- MODULE ConfigTrace ----
(* Trace validation for Config: recorded executions of the real TorConfig against SimTor.  The as-is  *)
(* mechanism (Dev = the open known findings) must explain every observation; the deviations actually *)
(* used are reported per trace.                                                                       *)
EXTENDS Config, Json, IOUtils, TLCExt
ASSUME TLCSet(3, ndJsonDeserialize(IOEnv.TRACE_FILE))
Traces == TLCGet(3)
ASSUME TLCSet(4, IF "VMODE" \in DOMAIN IOEnv THEN IOEnv.VMODE ELSE "full")
Mode == TLCGet(4)
TSc == {"s1", "s2"}
TLi == {"l1", "l2"}
TSV == {"a", "b"}
TEL == {"x", "y", "z"}
TKnown == {"c10_emptied_list_not_cleared", "c10_edits_during_save_lost"}
VARIABLES tid, l
ASSUME TLCSet(2, [t \in 1..Len(Traces) |-> 0])
ASSUME TLCSet(5, [t \in 1..Len(Traces) |-> {}])

\* token -> concrete text, per trace (the harness chose which real option plays which role)
\* the batch of traces recorded against a Tor whose second list option has no built-in default (NODEF in the environment)
TNoDef == IF "NODEF" \in DOMAIN IOEnv THEN {"l2"} ELSE {}
Conc(o, tok) == IF tok = "" THEN "" ELSE Traces[tid].conc[o][tok]
ConcSeq(o, s) == [i \in 1..Len(s) |-> Conc(o, s[i])]
ConcPairs(ps) == [i \in 1..Len(ps) |-> <<Traces[tid].names[ps[i][1]], Conc(ps[i][1], ps[i][2])>>]
\* per-option grouping of a SETCONF's pairs (the statement fixes the order within an option, not between options)
Group(ps, n) == SelectSeq(ps, LAMBDA p : p[1] = n)
SameSetconf(a, b) == Len(a) = Len(b) /\ \A i \in 1..Len(a) : Group(a, a[i][1]) = Group(b, a[i][1])

ObsOK(o) ==
  /\ Len(o.wrote) = Len(wire')
  /\ \A i \in 1..Len(wire') : SameSetconf(o.wrote[i], ConcPairs(wire'[i]))
  /\ phase' = "attached" =>
       \* o.skipview: options whose view is not compared at this step (a bare string was assigned to a list-valued port
       \* option and saved: until Tor's announcement of that save arrives the code shows the bare string)
       /\ \A x \in Options : x \notin SeqToSet(o.skipview) => o.view[x] = ConcSeq(x, view'[x])
       /\ \A x \in Options : x \notin SeqToSet(o.skipview) => o.shape[x] = "ok"
       /\ o.pending = (pend' # <<>>)
  /\ ~o.exc

PropsOK == PendingExact' /\ AfterAck' /\ ViewIsTor' /\ Tracked'

Pairs(rs) == [i \in 1..Len(rs) |-> <<rs[i].o, rs[i].v>>]
Step(e) ==
  CASE e.a = "Attach"      -> Attach(e.store)
    [] e.a = "Assign"      -> Assign(e.o, e.v)
    [] e.a = "AssignFrom"  -> AssignFrom(e.o, e.from)
    [] e.a = "ListOp"      -> ListOp(e.o, e.v) /\ e.old = view[e.o] /\ e.v \in EditsOf(view[e.o])
    [] e.a = "SaveSend"    -> SaveSend
    [] e.a = "SaveAck"     -> SaveAck
    [] e.a = "SaveReject"  -> SaveReject
    [] e.a = "OtherChange" -> OtherChange(Pairs(e.chs))
    [] e.a = "Deliver"     -> Deliver /\ Pairs(e.chs) = Head(evq)
    [] OTHER -> FALSE

TInit == Init /\ tid \in 1..Len(Traces) /\ l = 1
TNext ==
  /\ l <= Len(Traces[tid].steps)
  /\ LET e == Traces[tid].steps[l] IN
       Step(e) /\ (Mode = "full" => ObsOK(e.obs)) /\ (Mode # "env" => PropsOK)
  /\ l' = l + 1 /\ UNCHANGED tid
TSpec == TInit /\ [][TNext]_<<vars, tid, l>>
Progress == /\ TLCSet(2, [TLCGet(2) EXCEPT ![tid] = IF l - 1 > @ THEN l - 1 ELSE @])
            /\ TLCSet(5, [TLCGet(5) EXCEPT ![tid] = @ \cup devUsed])
Post == \A t \in 1..Len(Traces) : PrintT(<<"TRACE", t, TLCGet(2)[t], Len(Traces[t].steps), TLCGet(5)[t]>>)
====
