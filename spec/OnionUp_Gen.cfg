SPECIFICATION GSpec
CONSTANTS
  Dirs <- D4
  Dev <- Known
