SPECIFICATION Spec
CONSTANTS
  CircIds <- C2
  StreamIds <- S2
  Relays <- R2
  MaxPath = 2
  MaxPre = 3
  MaxEv = 3
  Listeners <- L0
  MaxUser = 0
  Waits <- W0
  Timed = FALSE
INVARIANT TypeOK
INVARIANT CircuitsMatch
INVARIANT StreamsMatch
INVARIANT StreamDetails
INVARIANT AttachBothWays
INVARIANT NoExc
