SPECIFICATION Spec
CONSTANTS
  MaxCmd = 1
  MaxEv = 2
  MaxLop = 1
  MaxPost = 0
  MaxDisc = 0
  ReplyShapes <- RS_two
  EventShapes <- ES_empty
  EvNames <- N1
  Listeners <- L2
  SubmitKinds <- K2
  Loose = FALSE
  Dev <- NoDev
INVARIANT TypeOK
INVARIANT WireFIFO
INVARIANT OneOutstanding
INVARIANT Outcomes
INVARIANT InProgressCb
INVARIANT NoExc
INVARIANT Deliveries
INVARIANT SetEventsExact
INVARIANT RegAgree
INVARIANT DiscNotified
PROPERTY ResolvedOnce
PROPERTY NoWriteAfterLoss
PROPERTY NoWriteWhileOutstanding
