SPECIFICATION Spec
CONSTANTS
  CircIds <- C1
  StreamIds <- S1
  Relays <- R2
  MaxPath = 2
  MaxPre = 2
  MaxEv = 7
  Listeners <- L2
  MaxUser = 4
  Waits <- W3
INVARIANT TypeOK
INVARIANT CircuitsMatch
INVARIANT StreamsMatch
INVARIANT StreamDetails
INVARIANT AttachBothWays
INVARIANT NoExc
INVARIANT WaitsOnce
INVARIANT BuiltWaits
INVARIANT CloseWaits
