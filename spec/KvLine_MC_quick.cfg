SPECIFICATION GSpec
CONSTANTS
  Dev = {}
  MaxLen = 3
  MaxLen2 = 2
INVARIANT RoundTrip
INVARIANT RunBlind
