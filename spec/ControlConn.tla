---------------------------- MODULE ControlConn ----------------------------
(***************************************************************************)
(* txtorcon's control connection (torcontrolprotocol.py, spaghetti.py):    *)
(* the command queue, the IDLE / RECV / RECV_PLUS line machine, dispatch   *)
(* of asynchronous 650 events to listeners, SETEVENTS bookkeeping and      *)
(* connection loss.  Properties C01, C02, C03.                             *)
(*                                                                         *)
(* Environment = the user (Submit, AddL, RemL, WhenDisc), Tor (BeginReply, *)
(* BeginEvent, Line) and the transport (Lose).  Mechanism = the record m,  *)
(* a transliteration of TorControlProtocol's own state; every mechanism    *)
(* step is a pure operator on m so that critical sections compose the way  *)
(* they nest in the code (a listener that unsubscribes inside a delivery   *)
(* queues a SETEVENTS which may be written inside lineReceived).           *)
(*                                                                         *)
(* Text is abstracted by tokens: every line Tor sends carries a fresh      *)
(* serial number (token 0 is the text "OK").                               *)
(***************************************************************************)
EXTENDS Naturals, Integers, Sequences, FiniteSets, TLC

CONSTANTS
  MaxCmd,       \* bound on user submissions before loss      (model checking only)
  MaxEv,        \* bound on events Tor emits
  MaxLop,       \* bound on listener add/remove requests
  MaxPost,      \* bound on submissions + disconnect requests after loss
  MaxDisc,      \* bound on disconnect-notification requests
  ReplyShapes,  \* set of <<class, shape>>: class "2"/"5", shape a sequence of line kinds
  EventShapes,  \* set of shapes for 650 events
  EvNames,      \* event names valid on this Tor
  Listeners,    \* listener identities; the name encodes the behaviour (see BehOf)
  SubmitKinds,  \* which kinds of command the user submits (model checking only)
  Loose,        \* TRUE: explore every behaviour the statement leaves open
  Dev           \* named deviations (historic defects); {} is the mechanism as it is now

VARIABLES
  m,        \* mechanism state (record, see M0)
  pending,  \* lines Tor has begun but not yet delivered (current reply or event)
  cur,      \* what is being sent: [t |-> "none"|"reply"|"event", cls, name, toks]
  replies,  \* ghost: complete replies Tor has sent, in order: [cls, toks]
  nline,    \* line serial (token source)
  nev,      \* events begun
  reg,      \* ghost: who is registered for which name (user's view)
  exp,      \* ghost: per listener the payloads it MUST have received, in order
  may,      \* ghost: per listener payloads it MAY have received (removed by a peer mid-delivery)
  cnt       \* bookkeeping for bounds: [sub, lop, post, disc]

vars == <<m, pending, cur, replies, nline, nev, reg, exp, may, cnt>>

----------------------------------------------------------------------------
(* Line kinds.                                                              *)
DataKinds  == {"d", "dS", "dE", "dM", "dP", "dK", "d0", "dL"}   \* plain / looks like "250 x" / "650 EV x" / "250-x" / "250+x" / "k=v" / empty / long (17 kB, below Tor's 1 MiB line limit)
BareKinds  == {"sB", "mB", "pB"}                    \* event first line consisting of the name only
FinalKinds == {"s", "sOK", "sB"}
MidKinds   == {"m", "mB"}
PlusKinds  == {"p", "pB"}

RECURSIVE WFRest(_, _)
WFRest(sh, inBlock) ==
  IF sh = <<>> THEN FALSE
  ELSE LET h == Head(sh)  t == Tail(sh) IN
       IF inBlock THEN (h \in DataKinds /\ WFRest(t, TRUE)) \/ (h = "." /\ WFRest(t, FALSE))
       ELSE \/ h \in {"s", "sOK"} /\ t = <<>>
            \/ h = "m" /\ WFRest(t, FALSE)
            \/ h = "p" /\ WFRest(t, TRUE)

WFReply(cls, sh) == cls \in {"2", "5"} /\ WFRest(sh, FALSE)
WFEvent(sh) ==
  /\ sh # <<>>
  /\ \/ Head(sh) \in {"s", "sB"} /\ Len(sh) = 1
     \/ Head(sh) \in MidKinds  /\ WFRest(Tail(sh), FALSE) /\ sh[Len(sh)] = "sOK"
     \/ Head(sh) \in PlusKinds /\ WFRest(Tail(sh), TRUE)  /\ sh[Len(sh)] = "sOK"

\* (an empty data line is a line of the payload like any other: its text is the empty string, token -2)
TokOf(k, serial) == IF k = "sOK" THEN 0 ELSE IF k = "d0" THEN -2 ELSE IF k \in BareKinds \cup {"."} THEN -1 ELSE serial

MakeLines(sh, cls, name, base) ==
  [i \in 1..Len(sh) |-> [k |-> sh[i], cls |-> cls, tok |-> TokOf(sh[i], base + i),
                          name |-> IF i = 1 THEN name ELSE ""]]

\* tokens of the lines of a reply / event that carry text
LineToks(ls) == LET f == SelectSeq(ls, LAMBDA x: x.tok # -1) IN [i \in 1..Len(f) |-> f[i].tok]

----------------------------------------------------------------------------
(* Mechanism.                                                               *)
NoOut == [k |-> "p", cls |-> "", toks |-> <<>>]
Out(k, cls, toks) == [k |-> k, cls |-> cls, toks |-> toks]

M0 == [cmds     |-> <<>>,   \* every command ever queued: [kind |-> "plain"|"cb"|"se", names]
       res      |-> <<>>,   \* outcome of each command's Deferred
       cbgot    |-> <<>>,   \* tokens handed to each command's per-line callback
       queue    |-> <<>>,   \* self.commands
       command  |-> 0,      \* self.command
       defer    |-> 0,      \* self.defer
       fsm      |-> "IDLE",
       code     |-> "",
       response |-> <<>>,
       rname    |-> "",     \* first word of the first accumulated line (event name)
       events   |-> <<>>,   \* self.events keys in insertion order
       cbs      |-> [n \in EvNames |-> <<>>],
       lost     |-> FALSE,
       wire     |-> <<>>,   \* command ids written, in order
       dl       |-> [l \in Listeners |-> <<>>],
       dn       |-> <<>>,   \* per disconnect request: times notified
       dk       |-> <<>>,   \* per disconnect request: what its callback does ("plain" | "again" | "submit")
       exc      |-> FALSE,  \* an exception escaped / a Deferred was fired twice
       wroteNow |-> <<>>, dlNow |-> <<>>, cbNow |-> <<>>]

Reset(mm) == [mm EXCEPT !.wroteNow = <<>>, !.dlNow = <<>>, !.cbNow = <<>>]

\* Resolving a command's Deferred runs the user's callbacks synchronously.  Two
\* user behaviours are modelled because they re-enter the protocol: a "retry"
\* command submits a plain command from its errback (failure or disconnect),
\* a "chain" command submits one from its success callback.
\* A "closer" command's success callback drops the connection; with an in-memory transport the loss is
\* reported synchronously, i.e. connectionLost runs inside the delivery of that very reply.
RECURSIVE MaybeIssue(_), QueueCmd(_, _, _), React(_, _, _), LoseM(_)
\* the user's callbacks on command c's Deferred, run when it has outcome o
React(mm, c, o) ==
  IF (mm.cmds[c].kind = "retry" /\ o.k \in {"err", "disc"}) \/ (mm.cmds[c].kind = "chain" /\ o.k = "ok")
  THEN QueueCmd(mm, "plain", {})
  ELSE IF mm.cmds[c].kind = "closer" /\ o.k = "ok" /\ ~mm.lost THEN LoseM(mm)
  ELSE mm

\* d.callback / d.errback on a Deferred that already has the user's callbacks
Fire(mm, c, o) ==
  IF c = 0 THEN [mm EXCEPT !.exc = TRUE]
  ELSE IF mm.res[c].k = "gone" THEN mm          \* the caller gave up on it: the outcome goes nowhere, silently
  ELSE IF mm.res[c].k # "p" THEN [mm EXCEPT !.exc = TRUE]
  ELSE React([mm EXCEPT !.res[c] = o], c, o)

MaybeIssue(mm) ==
  IF mm.command # 0 \/ mm.queue = <<>> THEN mm
  ELSE LET c  == Head(mm.queue)
           m1 == [mm EXCEPT !.queue = Tail(@), !.command = c]
       IN IF mm.lost
          THEN \* already_fired(d): d is the Deferred queue_command is about to return, so the
               \* user's callbacks are attached (and run) only after queue_command has returned
               IF mm.res[c].k = "gone" THEN [m1 EXCEPT !.command = 0]
               ELSE IF mm.res[c].k # "p" THEN [m1 EXCEPT !.exc = TRUE]
               ELSE LET o  == Out("disc", "", <<>>)
                        m2 == [m1 EXCEPT !.res[c] = o]
                    IN IF "c03_stuck" \in Dev THEN React(m2, c, o)
                       ELSE React([m2 EXCEPT !.command = 0], c, o)
          ELSE [m1 EXCEPT !.defer = c, !.wire = Append(@, c), !.wroteNow = Append(@, c)]

QueueCmd(mm, kind, names) ==
  LET c == Len(mm.cmds) + 1 IN
  MaybeIssue([mm EXCEPT !.cmds = Append(@, [kind |-> kind, names |-> names]),
                        !.res = Append(@, NoOut), !.cbgot = Append(@, <<>>),
                        !.queue = Append(@, c)])

SeqToSet(s) == {s[i] : i \in 1..Len(s)}
RemoveFirst(s, x) ==
  LET idx == CHOOSE i \in 1..Len(s) : s[i] = x /\ \A j \in 1..(i-1) : s[j] # x
  IN SubSeq(s, 1, idx - 1) \o SubSeq(s, idx + 1, Len(s))

\* add_event_listener
AddLM(mm, l, n) ==
  LET m1 == IF n \in SeqToSet(mm.events) THEN mm
            ELSE LET ev == Append(mm.events, n)
                 IN QueueCmd([mm EXCEPT !.events = ev], "se", SeqToSet(ev))
  IN [m1 EXCEPT !.cbs[n] = Append(@, l)]

\* remove_event_listener (l is registered for n)
RemLM(mm, l, n) ==
  LET cb == RemoveFirst(mm.cbs[n], l)
      m1 == [mm EXCEPT !.cbs[n] = cb]
  IN IF cb = <<>>
     THEN LET ev == SelectSeq(mm.events, LAMBDA x: x # n)
          IN QueueCmd([m1 EXCEPT !.events = ev], "se", SeqToSet(ev))
     ELSE m1

\* what a listener does when it is called
BehOf(l) == IF l \in {"raise", "self", "other", "adder", "killer"} THEN l ELSE "ok"
Victim == "ok2"
Late == "late"          \* the listener that "adder" registers (for the same event name) while it is being called
Behave(mm, l, n) ==
  CASE BehOf(l) = "self"  -> IF l \in SeqToSet(mm.cbs[n]) THEN RemLM(mm, l, n) ELSE mm
    [] BehOf(l) = "other" -> IF Victim \in SeqToSet(mm.cbs[n]) THEN RemLM(mm, Victim, n) ELSE mm
    [] BehOf(l) = "adder" -> IF Late \in SeqToSet(mm.cbs[n]) THEN mm ELSE AddLM(mm, Late, n)
    \* "killer" unsubscribes the one-shot listener "self"; "self", still called in this delivery, then tries to
    \* unsubscribe itself although it is no longer registered: an error inside that listener, nothing else
    [] BehOf(l) = "killer" -> IF "self" \in SeqToSet(mm.cbs[n]) THEN RemLM(mm, "self", n) ELSE mm
    [] OTHER -> mm

\* Event.got_update: ls is the list being iterated, i the position;
\* skipPeer: listeners removed by a peer earlier in this delivery are skipped
RECURSIVE Deliver(_, _, _, _, _, _)
Deliver(mm, n, toks, ls, i, skipPeer) ==
  IF i > Len(ls) THEN mm
  ELSE LET l    == ls[i]
           skip == skipPeer /\ l \notin SeqToSet(mm.cbs[n])
           m1   == IF skip THEN mm
                   ELSE [mm EXCEPT !.dl[l] = Append(@, toks), !.dlNow = Append(@, <<l, toks>>)]
           m2   == IF skip THEN m1 ELSE Behave(m1, l, n)
       IN Deliver(m2, n, toks, IF "c02_skip" \in Dev THEN m2.cbs[n] ELSE ls, i + 1, skipPeer)

Notify(mm, n, toks, ch) ==
  IF n \in SeqToSet(mm.events) THEN Deliver(mm, n, toks, mm.cbs[n], 1, ~ch.peer) ELSE mm

CbGive(mm, c, tok) == [mm EXCEPT !.cbgot[c] = Append(@, tok), !.cbNow = Append(@, <<c, tok>>)]

IsCb(mm) == mm.command # 0 /\ mm.cmds[mm.command].kind = "cb"
\* lines of the reply in progress go to the per-line callback (2xx replies only)
Route(mm, cls, ch) ==
  IsCb(mm) /\ (cls = "2" \/ (cls = "5" /\ ch.cb5) \/ (cls = "6" /\ "c02_cb_leak" \in Dev))

Acc(mm, cls, tok, ch) ==
  IF Route(mm, cls, ch) THEN CbGive(mm, mm.command, tok)
  ELSE IF tok = -1 THEN mm ELSE [mm EXCEPT !.response = Append(@, tok)]

Done(mm) == MaybeIssue([mm EXCEPT !.command = 0, !.code = "", !.defer = 0])

Broadcast(mm, ln, ch) ==
  LET code == IF mm.fsm = "IDLE" THEN ln.cls ELSE mm.code
      name == IF mm.fsm = "IDLE" THEN ln.name ELSE mm.rname
      tocb == code = "2" /\ IsCb(mm)
      m1   == IF tocb /\ (ln.tok # 0 \/ ch.cbFinal) THEN CbGive(mm, mm.command, ln.tok) ELSE mm
      resp == IF tocb THEN <<>>
              ELSE IF code = "5" /\ IsCb(mm) /\ ch.cb5 THEN <<ln.tok>>
              ELSE mm.response \o (IF ln.tok = -1 THEN <<>> ELSE <<ln.tok>>)
      m2   == [m1 EXCEPT !.response = <<>>, !.fsm = "IDLE", !.rname = ""]
  IN CASE code = "2" ->
            LET r2 == IF Len(resp) >= 2 /\ resp[Len(resp)] = 0 THEN SubSeq(resp, 1, Len(resp) - 1)
                      ELSE IF resp = <<0>> /\ ~ch.loneOK THEN <<>> ELSE resp
            IN Done(Fire(m2, mm.defer, Out("ok", "2", r2)))
       [] code = "5" -> Done(Fire(m2, mm.defer, Out("err", "5", resp)))
       [] OTHER      -> Notify([m2 EXCEPT !.code = ""], name, resp, ch)

Sep(k) == IF k \in FinalKinds THEN " " ELSE IF k \in MidKinds THEN "-" ELSE IF k \in PlusKinds THEN "+" ELSE "?"

\* lineReceived -> FSM.process
Recv(mm, ln, ch) ==
  CASE mm.fsm = "IDLE" ->
         IF Sep(ln.k) = " " THEN Broadcast(mm, ln, ch)
         ELSE [Acc([mm EXCEPT !.code = ln.cls, !.rname = ln.name, !.response = <<>>], ln.cls, ln.tok, ch)
                 EXCEPT !.fsm = IF Sep(ln.k) = "+" THEN "RECV_PLUS" ELSE "RECV"]
    [] mm.fsm = "RECV" ->
         IF Sep(ln.k) = " " THEN Broadcast(mm, ln, ch)
         ELSE [Acc(mm, mm.code, ln.tok, ch) EXCEPT !.fsm = IF Sep(ln.k) = "+" THEN "RECV_PLUS" ELSE "RECV"]
    [] OTHER -> \* RECV_PLUS
         IF ln.k = "." THEN [mm EXCEPT !.fsm = "RECV"] ELSE Acc(mm, mm.code, ln.tok, ch)

RECURSIVE FailAll(_, _)
FailAll(mm, cs) ==
  IF cs = <<>> THEN mm
  ELSE LET c == Head(cs) IN
       FailAll(IF mm.res[c].k = "p" THEN Fire(mm, c, Out("disc", "", <<>>)) ELSE mm, Tail(cs))

\* when_disconnected().  The user's callback may re-enter the protocol: "again" asks to be told once
\* more (a second component registering itself), "submit" queues a plain command.
RECURSIVE NotifyDisc(_, _)
DiscReact(mm, kind) ==
  CASE kind = "again"  -> [mm EXCEPT !.dn = Append(@, 1), !.dk = Append(@, "plain")]   \* already lost: told at once
    [] kind = "submit" -> QueueCmd(mm, "plain", {})
    [] OTHER -> mm
\* SingleObserver.fire: the requests made before the loss are told in order (requests made by their
\* callbacks are told at once and are not in this list)
NotifyDisc(mm, idx) ==
  IF idx = <<>> THEN mm
  ELSE NotifyDisc(DiscReact([mm EXCEPT !.dn[Head(idx)] = @ + 1], mm.dk[Head(idx)]), Tail(idx))

\* connectionLost: disconnect requests are told first - while the unanswered commands are still in
\* place, so a command submitted from such a callback joins them - then every unanswered command fails
LoseM(mm) ==
  LET m0 == [mm EXCEPT !.lost = TRUE]
      m1 == NotifyDisc(m0, [i \in 1..Len(mm.dn) |-> i])
      outstanding == (IF m1.command # 0 THEN <<m1.command>> ELSE <<>>) \o m1.queue
      m2 == [m1 EXCEPT !.command = 0, !.defer = 0,
                       !.queue = IF "c03_stuck" \in Dev THEN @ ELSE <<>>]
  IN FailAll(m2, outstanding)

WhenDiscM(mm, kind) ==
  LET m1 == [mm EXCEPT !.dn = Append(@, IF mm.lost THEN 1 ELSE 0), !.dk = Append(@, kind)]
  IN IF mm.lost THEN DiscReact(m1, kind) ELSE m1

----------------------------------------------------------------------------
(* Ghost: who must / may receive an event, from the user's view of the      *)
(* registrations (independent of the mechanism's own tables).               *)
GBehave(r, l) ==
  CASE BehOf(l) = "self"  -> IF l \in SeqToSet(r) THEN RemoveFirst(r, l) ELSE r
    [] BehOf(l) = "other" -> IF Victim \in SeqToSet(r) THEN RemoveFirst(r, Victim) ELSE r
    \* a listener registered during delivery hears later events, not the one being delivered
    [] BehOf(l) = "adder" -> IF Late \in SeqToSet(r) THEN r ELSE Append(r, Late)
    [] BehOf(l) = "killer" -> IF "self" \in SeqToSet(r) THEN RemoveFirst(r, "self") ELSE r
    [] OTHER -> r

\* returns [r |-> registrations afterwards, must |-> set, may |-> set]
RECURSIVE GDeliver(_, _, _)
GDeliver(ls, i, acc) ==
  IF i > Len(ls) THEN acc
  ELSE LET l == ls[i] IN
       \* "to every listener registered for that event name at that moment": a listener that a peer removes
       \* before its turn in this delivery was registered when the event arrived, so it still receives it
       \* (read more loosely until seeded change C02-r7; `may` stays empty now)
       GDeliver(ls, i + 1, [acc EXCEPT !.must = @ \cup {l}, !.r = GBehave(acc.r, l)])

----------------------------------------------------------------------------
Choices == IF Loose THEN [loneOK : BOOLEAN, cbFinal : BOOLEAN, cb5 : BOOLEAN, peer : {TRUE}]
           ELSE {[loneOK |-> TRUE, cbFinal |-> TRUE, cb5 |-> FALSE, peer |-> TRUE]}

None == [t |-> "none", cls |-> "", name |-> "", toks |-> <<>>]

Init ==
  /\ m = M0
  /\ pending = <<>> /\ cur = None /\ replies = <<>> /\ nline = 0 /\ nev = 0
  /\ reg = [n \in EvNames |-> <<>>]
  /\ exp = [l \in Listeners |-> <<>>]
  /\ may = [l \in Listeners |-> {}]
  /\ cnt = [sub |-> 0, lop |-> 0, post |-> 0, disc |-> 0]

\* What a per-line callback returns to the protocol is the application's business (a count, a Deferred, a string ...)
\* and has no effect; recorded traces carry it as the field `ret` of a "cb" submission.
CbReturns == {"none", "one", "zero", "defer", "text"}

\* NonAscii: a command text with a character outside ASCII may be refused at submission (an error to the caller on
\* the spot: it was never submitted - what the code does) or accepted, and then it is a command like any other, to be
\* written, resolved by its reply and failed by a loss.  Recorded traces say which happened (field `acc` of a
\* submission of kind "na"); the trace specification takes the corresponding branch.
\* The caller of a plain command that is still waiting in the queue - or already written and waiting for its reply -
\* gives up on it (cancels its Deferred, or a timeout it put on it expires).  The command keeps its place: it is
\* written when its turn comes, Tor's reply to it is consumed like any other - only nobody is told - and a loss
\* clears it like any other, so the commands behind it and those submitted later are not disturbed.
GiveUp(c) ==
  /\ (c \in SeqToSet(m.queue) \/ c = m.command)      \* still queued, or written and waiting for its reply
  /\ m.cmds[c].kind = "plain" /\ m.res[c].k = "p" /\ ~m.lost
  /\ m' = [Reset(m) EXCEPT !.res[c] = Out("gone", "", <<>>)]
  /\ cnt' = [cnt EXCEPT !.lop = @ + 1]
  /\ UNCHANGED <<pending, cur, replies, nline, nev, reg, exp, may>>

SubmitRefused == m' = Reset(m) /\ UNCHANGED <<pending, cur, replies, nline, nev, reg, exp, may, cnt>>
Submit(kind) ==
  /\ kind \in {"plain", "cb", "retry", "chain", "closer"}
  /\ m' = QueueCmd(Reset(m), kind, {})
  /\ cnt' = IF m.lost THEN [cnt EXCEPT !.post = @ + 1] ELSE [cnt EXCEPT !.sub = @ + 1]
  /\ UNCHANGED <<pending, cur, replies, nline, nev, reg, exp, may>>

AddL(l, n) ==
  /\ l \in Listeners /\ n \in EvNames /\ l \notin SeqToSet(reg[n])
  /\ m' = AddLM(Reset(m), l, n)
  /\ reg' = [reg EXCEPT ![n] = Append(@, l)]
  /\ cnt' = [cnt EXCEPT !.lop = @ + 1]
  /\ UNCHANGED <<pending, cur, replies, nline, nev, exp, may>>

RemL(l, n) ==
  /\ l \in Listeners /\ n \in EvNames /\ l \in SeqToSet(reg[n])
  /\ m' = RemLM(Reset(m), l, n)
  /\ reg' = [reg EXCEPT ![n] = RemoveFirst(@, l)]
  /\ cnt' = [cnt EXCEPT !.lop = @ + 1]
  /\ UNCHANGED <<pending, cur, replies, nline, nev, exp, may>>

WhenDisc(kind) ==
  /\ kind \in {"plain", "again", "submit"}
  /\ m' = WhenDiscM(Reset(m), kind)
  /\ cnt' = [cnt EXCEPT !.disc = @ + 1]
  /\ UNCHANGED <<pending, cur, replies, nline, nev, reg, exp, may>>

\* Tor starts answering the one command that is written and unanswered
BeginReply(cls, sh) ==
  /\ ~m.lost /\ pending = <<>> /\ Len(m.wire) > Len(replies)
  /\ WFReply(cls, sh)
  /\ pending' = MakeLines(sh, cls, "", nline)
  /\ nline' = nline + Len(sh)
  /\ cur' = [t |-> "reply", cls |-> cls, name |-> "", toks |-> <<>>]
  /\ m' = Reset(m)
  /\ UNCHANGED <<replies, nev, reg, exp, may, cnt>>

\* Tor starts an asynchronous event (only between replies)
BeginEvent(n, sh) ==
  /\ ~m.lost /\ pending = <<>> /\ n \in EvNames
  /\ WFEvent(sh)
  /\ pending' = MakeLines(sh, "6", n, nline)
  /\ nline' = nline + Len(sh)
  /\ nev' = nev + 1
  /\ cur' = [t |-> "event", cls |-> "6", name |-> n, toks |-> <<>>]
  /\ m' = Reset(m)
  /\ UNCHANGED <<replies, reg, exp, may, cnt>>

\* the next line arrives and is processed by lineReceived
Line ==
  /\ pending # <<>>
  /\ LET ln   == Head(pending)
         toks == IF ln.tok = -1 THEN cur.toks ELSE Append(cur.toks, ln.tok)
         last == Len(pending) = 1
     IN /\ \E ch \in Choices : m' = Recv(Reset(m), ln, ch)
        /\ pending' = Tail(pending)
        /\ cur' = IF last THEN None ELSE [cur EXCEPT !.toks = toks]
        /\ replies' = IF last /\ cur.t = "reply" THEN Append(replies, [cls |-> cur.cls, toks |-> toks])
                      ELSE replies
        /\ IF last /\ cur.t = "event"
           THEN LET g == GDeliver(reg[cur.name], 1, [r |-> reg[cur.name], must |-> {}, may |-> {}])
                IN /\ reg' = [reg EXCEPT ![cur.name] = g.r]
                   /\ exp' = [l \in Listeners |-> IF l \in g.must THEN Append(exp[l], toks) ELSE exp[l]]
                   /\ may' = [l \in Listeners |-> IF l \in g.may THEN may[l] \cup {toks} ELSE may[l]]
           ELSE UNCHANGED <<reg, exp, may>>
  /\ UNCHANGED <<nline, nev, cnt>>

Lose ==
  /\ ~m.lost
  /\ m' = LoseM(Reset(m))
  /\ pending' = <<>> /\ cur' = None
  /\ UNCHANGED <<replies, nline, nev, reg, exp, may, cnt>>

Next ==
  \/ \E k \in SubmitKinds : Submit(k) /\ (IF m.lost THEN cnt.post < MaxPost ELSE cnt.sub < MaxCmd)
  \/ \E l \in Listeners, n \in EvNames : (AddL(l, n) \/ RemL(l, n)) /\ cnt.lop < MaxLop /\ ~m.lost
  \/ \E k \in {"plain", "again", "submit"} : WhenDisc(k) /\ cnt.disc < MaxDisc
  \/ \E c \in 1..Len(m.cmds) : GiveUp(c) /\ cnt.lop < MaxLop
  \/ \E rs \in ReplyShapes : BeginReply(rs[1], rs[2])
  \/ \E n \in EvNames, sh \in EventShapes : BeginEvent(n, sh) /\ nev < MaxEv
  \/ Line
  \/ Lose

Spec == Init /\ [][Next]_vars

----------------------------------------------------------------------------
(* Properties.                                                              *)
NCmds == Len(m.cmds)
Front(s) == SubSeq(s, 1, Len(s) - 1)

\* C01: each command written once, in submission order
WireFIFO == m.wire = [i \in 1..Len(m.wire) |-> i]
\* C01: never written while an earlier reply is outstanding
OneOutstanding == Len(m.wire) - Len(replies) \in {0, 1}

Allowed2(t) == IF t = <<0>> THEN {<<>>, <<0>>} ELSE IF t[Len(t)] = 0 THEN {Front(t)} ELSE {t}

ReplyMatches(n) ==
  LET r == replies[n]  c == m.cmds[n]  o == m.res[n]  g == m.cbgot[n] IN
  IF r.cls = "2"
  THEN /\ o.k = "ok"
       /\ IF c.kind = "cb" THEN g \in {r.toks} \cup (IF r.toks[Len(r.toks)] = 0 THEN {Front(r.toks)} ELSE {})
          ELSE o.toks \in Allowed2(r.toks) /\ g = <<>>
  ELSE /\ o.k = "err" /\ o.cls = "5"
       /\ IF c.kind = "cb" THEN o.toks \in {r.toks, <<r.toks[Len(r.toks)]>>} /\ g \in {<<>>, Front(r.toks)}
          ELSE o.toks = r.toks /\ g = <<>>

\* C01: the n-th complete reply resolves the n-th command; C03: after loss nothing is pending
Outcomes ==
  \A n \in 1..NCmds :
    IF m.res[n].k = "gone" THEN TRUE             \* (given up by its caller while it was queued)
    ELSE IF n <= Len(replies) THEN ReplyMatches(n)
    ELSE IF m.lost THEN m.res[n].k = "disc"
    ELSE m.res[n].k = "p"

\* C01/C02: a per-line callback sees exactly the lines of its own reply so far
InProgressCb ==
  \A n \in 1..NCmds :
    (n > Len(replies) /\ m.cmds[n].kind = "cb" /\ ~m.lost) =>
       IF n = Len(replies) + 1 /\ cur.t = "reply" /\ cur.cls = "2" THEN m.cbgot[n] = cur.toks
       ELSE IF n = Len(replies) + 1 /\ cur.t = "reply" THEN TRUE
       ELSE m.cbgot[n] = <<>>

NoExc == ~m.exc

\* C02: exactly-once, in order, exact payload, nobody else
Deliveries ==
  \A l \in Listeners :
    LET got == m.dl[l] IN
    /\ SelectSeq(got, LAMBDA p : p \notin may[l]) = SelectSeq(exp[l], LAMBDA p : p \notin may[l])
    /\ \A i, j \in 1..Len(got) : (i # j /\ got[i] # <<>>) => got[i] # got[j]

\* C02: the subscription command lists exactly the names that have listeners
LastSe ==
  LET idx == {i \in 1..NCmds : m.cmds[i].kind = "se"} IN
  IF idx = {} THEN {} ELSE m.cmds[CHOOSE i \in idx : \A j \in idx : j <= i].names
SetEventsExact == LastSe = {n \in EvNames : reg[n] # <<>>}
RegAgree == \A n \in EvNames : m.cbs[n] = reg[n]

\* C03: every disconnect request notified exactly once (after loss), never before
DiscNotified == \A i \in 1..Len(m.dn) : m.dn[i] = IF m.lost THEN 1 ELSE 0

\* action properties
ResolvedOnce == [][\A c \in 1..NCmds : m.res[c].k # "p" => m'.res[c] = m.res[c]]_vars
NoWriteAfterLoss == [][m.lost => m'.wire = m.wire]_vars
NoWriteWhileOutstanding == [][(Len(m.wire) > Len(replies) /\ Len(replies') = Len(replies)) => m'.wire = m.wire]_vars

\* Liveness.  Tor, as long as the connection is up, goes on sending the lines of what it has begun and answers the
\* command that has been written.  Under that assumption no command stays unresolved for ever - whatever callbacks
\* re-submit, whoever gives up on what, and whenever the connection is lost - and the queue drains again and again.
TorFair == WF_vars(Line) /\ WF_vars(\E rs \in ReplyShapes : BeginReply(rs[1], rs[2]))
LiveSpec == Spec /\ TorFair
MaxAll == 16       \* more than any bounded configuration creates
EveryCommandResolves == \A c \in 1..MaxAll : (c <= NCmds) ~> (c <= NCmds /\ m.res[c].k # "p")
QueueDrains == []<>(m.queue = <<>>)
FewEnough == NCmds <= MaxAll

TypeOK == /\ m.fsm \in {"IDLE", "RECV", "RECV_PLUS"}
          /\ Len(m.res) = NCmds /\ Len(m.cbgot) = NCmds

\* reachability probes (each must be violated by TLC, i.e. the situation is reachable)
ProbeEventDuringCb == ~(cur.t = "event" /\ Len(cur.toks) > 0 /\ IsCb(m))
ProbeLossMidBlock  == ~(m.lost /\ m.fsm = "RECV_PLUS")
ProbeSelfRemoval   == ~(\E l \in Listeners : BehOf(l) = "self" /\ Len(m.dl[l]) > 0 /\ Len(m.wire) > 2)
=============================================================================
