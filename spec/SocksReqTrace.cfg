SPECIFICATION TSpec
CONSTANTS Dev = {"c06_v6_connect_trunc"}
CONSTRAINT Progress
POSTCONDITION Post
CHECK_DEADLOCK FALSE
