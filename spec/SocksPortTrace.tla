---- MODULE SocksPortTrace ----
EXTENDS SocksPort, Json, IOUtils, TLCExt
ASSUME TLCSet(3, ndJsonDeserialize(IOEnv.TRACE_FILE))
Vecs == TLCGet(3)
VARIABLES tid, verdict
TInit == tid \in 1..Len(Vecs) /\ verdict = "init"
Verdict(v) == IF v.part = "a"
              THEN (IF Holds18a(v) THEN "ok" ELSE IF Explains18a(v) # {} THEN "dev" ELSE "bad")
              ELSE (IF Holds18b(v) THEN "ok" ELSE "bad")
TNext == verdict = "init" /\ verdict' = Verdict(Vecs[tid]) /\ UNCHANGED tid
TSpec == TInit /\ [][TNext]_<<tid, verdict>>
ASSUME TLCSet(2, [t \in 1..Len(Vecs) |-> "none"])
Progress == verdict = "init" \/ TLCSet(2, [TLCGet(2) EXCEPT ![tid] = verdict])
Post == \A t \in 1..Len(Vecs) :
          LET vd == TLCGet(2)[t] IN
          PrintT(<<"TRACE", t, IF vd \in {"ok", "dev"} THEN 1 ELSE 0, 1, IF vd = "dev" THEN Explains18a(Vecs[t]) ELSE {}>>)
====
