SPECIFICATION TSpec
CONSTANTS
  Circs <- TCirc
  Streams <- TStr
  Conns <- TConn
  Ports <- TPort
  MaxSteps = 100000
  MaxSubs = 3
CONSTRAINT Progress
POSTCONDITION Post
CHECK_DEADLOCK FALSE
