------------------------------- MODULE Launch -------------------------------
(***************************************************************************)
(* Launching a Tor process (controller.py launch(), TorProcessProtocol).   *)
(* Property C19: for any ordering of the child's output, its exit, the     *)
(* launch timeout and the control connection's outcome the launch result   *)
(* fires at most once - success only after 100% bootstrap was reported     *)
(* over the authenticated control connection on which ownership was        *)
(* requested; failure if the process ends or the timeout elapses first;    *)
(* a temporary data directory is removed once the process has ended.       *)
(***************************************************************************)
EXTENDS Naturals, Sequences, FiniteSets, TLC

CONSTANT MaxSteps

VARIABLES
  dirKind,   \* "temp": launch() made the data directory; "user": the caller supplied it (data_directory=);
             \* "cfg": the caller's directory is named by the configuration object handed to launch();
             \* "usernew": the caller names (data_directory=) a directory that does not exist yet - launch() creates it
  dirExists,
  attempted, \* a control connection attempt is under way / succeeded
  conn,      \* "none" | "pending" | "up" | "failed"
  stage,     \* progress of the ownership dialogue: "none" | "se" | "to" | "rc" | "done" | "broken"
  subscribed,\* Tor has processed SETEVENTS STATUS_CLIENT (bootstrap events can flow)
  owned,     \* TAKEOWNERSHIP has been written on the control connection
  saw100,
  res,       \* the process protocol's "connected" outcome: "p" | "ok" | "err"
  launch,    \* the launch result: "p" | "ok" | "err"
  nlaunch,
  tmo,       \* the timeout: "armed" | "fired" | "cancelled"
  terms,     \* TERM signals sent to the process
  exited,
  wrote,     \* ownership-related commands written in this step
  shut,      \* the application's reactor has shut down (its "before shutdown" triggers have run)
  held,      \* the Tor process has been reaped but one of its pipes is still open (inherited by a helper process):
             \* Twisted reports the end of the process only when the pipes are closed too
  steps

vars == <<dirKind, dirExists, attempted, conn, stage, subscribed, owned, saw100, res, launch, nlaunch, tmo, terms, exited, wrote, shut, held, steps>>

Init ==
  /\ dirKind \in {"temp", "user", "cfg", "usernew"} /\ dirExists = TRUE
  /\ attempted = FALSE /\ conn = "none" /\ stage = "none" /\ subscribed = FALSE /\ owned = FALSE /\ saw100 = FALSE
  /\ res = "p" /\ launch = "p" /\ nlaunch = 0 /\ tmo = "armed" /\ terms = 0 /\ exited = FALSE /\ wrote = <<>> /\ shut = FALSE /\ held = FALSE /\ steps = 0

\* the launch result follows the "connected" outcome; on success launch() additionally waits until the
\* configuration object is attached, i.e. until no ownership command is still awaiting its reply
Settle(r, st) ==
  /\ launch' = IF launch # "p" THEN launch
               ELSE IF r = "err" THEN "err"
               ELSE IF r = "ok" /\ st \in {"done", "broken"} THEN "ok" ELSE "p"
  /\ nlaunch' = IF launch = "p" /\ launch' # "p" THEN nlaunch + 1 ELSE nlaunch
  /\ steps' = steps + 1

\* the child prints something; a chunk containing the whole "Opening Control listener" line starts a connection attempt
Stdout(marker) ==
  /\ ~exited
  /\ IF marker /\ ~attempted THEN attempted' = TRUE /\ conn' = "pending" ELSE UNCHANGED <<attempted, conn>>
  /\ wrote' = <<>> /\ Settle(res, stage)
  /\ UNCHANGED <<dirKind, dirExists, stage, subscribed, owned, saw100, res, tmo, terms, exited>>

\* the child writes to stderr: the launcher closes its end of the child's pipes (kill_on_stderr) - that alone
\* decides nothing: Tor ignores SIGPIPE; the outcome still comes from progress, the timeout or the exit
Stderr ==
  /\ ~exited
  /\ wrote' = <<>> /\ Settle(res, stage)
  /\ UNCHANGED <<dirKind, dirExists, attempted, conn, stage, subscribed, owned, saw100, res, tmo, terms, exited>>

\* the control connection is established and authenticates (or fails to)
Connect(how) ==
  /\ conn = "pending" /\ how \in {"ok", "authfail", "refused"}
  /\ IF how = "ok" THEN /\ conn' = "up" /\ stage' = "se" /\ wrote' = <<"SETEVENTS">> /\ UNCHANGED attempted
     ELSE /\ conn' = "failed" /\ attempted' = FALSE /\ wrote' = <<>> /\ UNCHANGED stage
  /\ Settle(res, stage')
  /\ UNCHANGED <<dirKind, dirExists, subscribed, owned, saw100, res, tmo, terms, exited>>

\* Tor answers the ownership command that is outstanding
CtlReply(ok) ==
  /\ stage \in {"se", "to", "rc"}
  /\ IF ~ok THEN stage' = "broken" /\ attempted' = FALSE /\ wrote' = <<>> /\ UNCHANGED <<subscribed, owned>>
     ELSE CASE stage = "se" -> stage' = "to" /\ subscribed' = TRUE /\ owned' = TRUE /\ wrote' = <<"TAKEOWNERSHIP">> /\ UNCHANGED attempted
            [] stage = "to" -> stage' = "rc" /\ wrote' = <<"RESETCONF">> /\ UNCHANGED <<attempted, subscribed, owned>>
            [] OTHER        -> stage' = "done" /\ wrote' = <<>> /\ UNCHANGED <<attempted, subscribed, owned>>
  /\ Settle(res, stage')
  /\ UNCHANGED <<dirKind, dirExists, conn, saw100, res, tmo, terms, exited>>

\* Tor reports bootstrap progress (only once we are subscribed)
Progress(p) ==
  /\ subscribed /\ ~exited /\ p \in {10, 50, 100}
  /\ IF p = 100 /\ tmo # "fired"
     THEN /\ saw100' = TRUE /\ tmo' = "cancelled" /\ res' = IF res = "p" THEN "ok" ELSE res
     ELSE /\ saw100' = (saw100 \/ p = 100) /\ UNCHANGED <<tmo, res>>
  /\ wrote' = <<>> /\ Settle(res', stage)
  /\ UNCHANGED <<dirKind, dirExists, attempted, conn, stage, subscribed, owned, terms, exited>>

\* (with the process reaped and a pipe still open, the TERM signal has nobody to go to: the pipes are let go of
\* instead, upon which the end of the process is reported and cleaned up after)
Timeout ==
  /\ tmo = "armed"
  /\ tmo' = "fired" /\ terms' = IF exited \/ held THEN terms ELSE terms + 1
  /\ res' = IF res = "p" THEN "err" ELSE res
  /\ exited' = (exited \/ held)
  /\ dirExists' = IF held /\ dirKind = "temp" THEN FALSE ELSE dirExists
  /\ wrote' = <<>> /\ Settle(res', stage)
  /\ UNCHANGED <<dirKind, attempted, conn, stage, subscribed, owned, saw100>>

\* the process is reaped while a pipe stays open: nothing is reported as ended yet
ExitHeld ==
  /\ ~exited /\ ~held /\ held' = TRUE
  /\ wrote' = <<>> /\ steps' = steps + 1
  /\ UNCHANGED <<dirKind, dirExists, attempted, conn, stage, subscribed, owned, saw100, res, launch, nlaunch, tmo, terms, exited, shut>>

Exit ==
  /\ ~exited /\ exited' = TRUE
  /\ dirExists' = IF dirKind = "temp" THEN FALSE ELSE dirExists
  /\ res' = IF res = "p" THEN "err" ELSE res
  /\ wrote' = <<>> /\ Settle(res', stage)
  /\ UNCHANGED <<dirKind, attempted, conn, stage, subscribed, owned, saw100, tmo, terms>>

\* the application ends while Tor may still be running: the reactor runs its "before shutdown" triggers; a data
\* directory that launch() made goes away, the caller's stays.  Nothing further is observed afterwards.
Shutdown ==
  /\ ~shut /\ shut' = TRUE
  /\ dirExists' = IF dirKind = "temp" THEN FALSE ELSE dirExists
  /\ wrote' = <<>> /\ steps' = steps + 1
  /\ UNCHANGED <<dirKind, attempted, conn, stage, subscribed, owned, saw100, res, launch, nlaunch, tmo, terms, exited>>

\* (once the process is reaped nothing but the timeout and the closing of the pipes - Exit - can follow)
Next ==
  /\ steps < MaxSteps /\ ~shut
  /\ \/ /\ ~held
        /\ \/ \E m \in BOOLEAN : Stdout(m)
           \/ Stderr
           \/ \E h \in {"ok", "authfail", "refused"} : Connect(h)
           \/ \E ok \in BOOLEAN : CtlReply(ok)
           \/ \E p \in {10, 50, 100} : Progress(p)
        /\ UNCHANGED <<shut, held>>
     \/ (Timeout \/ Exit) /\ UNCHANGED <<shut, held>>
     \/ ExitHeld
     \/ Shutdown /\ UNCHANGED held

Spec == Init /\ [][Next]_vars

----------------------------------------------------------------------------
AtMostOnce == nlaunch <= 1 /\ (launch = "p" <=> nlaunch = 0)
SuccessOnlyAfterBootstrap == launch = "ok" => saw100 /\ subscribed /\ owned    \* (subscribed: some control connection is up and authenticated)
FailsIfEndedOrTimedOutFirst == ((exited \/ tmo = "fired") /\ res # "ok") => launch = "err"
TermOnTimeout == tmo = "fired" => (terms >= 1 \/ exited)
TempDirRemoved == ((exited \/ shut) /\ dirKind = "temp") => ~dirExists
UserDirKept == dirKind \in {"user", "cfg", "usernew"} => dirExists
TempDirKeptWhileRunning == (~exited /\ ~shut) => dirExists
NoFlip == [][launch # "p" => launch' = launch]_vars
TypeOK == launch \in {"p", "ok", "err"}
=============================================================================
