---- MODULE TorStateMTrace ----
(* Trace validation for TorStateM: recorded executions of the real TorState. *)
EXTENDS TorStateM, Json, IOUtils, TLCExt
ASSUME TLCSet(3, ndJsonDeserialize(IOEnv.TRACE_FILE))
Traces == TLCGet(3)
ASSUME TLCSet(4, IF "VMODE" \in DOMAIN IOEnv THEN IOEnv.VMODE ELSE "full")
Mode == TLCGet(4)
TC == {1, 2, 3}
TS == {1, 2, 3}
TR == {"r1", "r2", "rX"}
TL == {"l1", "l2"}
TW == {"w1", "w2", "w3"}
WaitOrder == <<"w1", "w2", "w3">>
VARIABLES tid, l
ASSUME TLCSet(2, [t \in 1..Len(Traces) |-> 0])

CircOK(o, c) ==
  IF m'.c[c].live
  THEN o = [live |-> TRUE, st |-> m'.c[c].st, path |-> m'.c[c].path, pur |-> m'.c[c].pur, bf |-> m'.c[c].bf,
            streams |-> m'.c[c].streams]
  ELSE ~o.live
StrmOK(o, s) ==
  IF m'.s[s].live
  THEN o = [live |-> TRUE, st |-> m'.s[s].st, circ |-> m'.s[s].circ,
            listed |-> IF m'.s[s].circ = 0 THEN 0 ELSE Count(m'.c[m'.s[s].circ].streams, s),
            tgt |-> m'.s[s].tgt, taddr |-> m'.s[s].taddr, src |-> m'.s[s].src]
  ELSE ~o.live
ObsOK(o) ==
  /\ \A c \in CircIds : CircOK(o.circ[c], c)
  /\ \A s \in StreamIds : StrmOK(o.strm[s], s)
  /\ o.notes = m'.notes
  /\ \A i \in 1..Len(WaitOrder) : LET w == m'.w[WaitOrder[i]] IN
        o.waits[i].k = w.k /\ o.waits[i].out = w.out /\ o.waits[i].n = w.n
  /\ o.wrote = m'.wrote
  /\ o.exc = m'.exc

PropsOK == CircuitsMatch' /\ StreamsMatch' /\ StreamDetails' /\ AttachBothWays' /\ NoExc'
           /\ WaitsOnce' /\ BuiltWaits' /\ CloseWaits' /\ TimedBuilds'

Last(s) == s[Len(s)]
Step(e) ==
  CASE e.a = "Launch"      -> Launch(e.ev.id, e.ev.pur, e.ev.bf)
    [] e.a = "Extend"      -> Extend(e.ev.id, Last(e.ev.path), e.ev.pur) /\ e.ev.path = tc'[e.ev.id].path
    [] e.a = "Built"       -> Built(e.ev.id) /\ e.ev.path = tc[e.ev.id].path
    [] e.a = "CircGone"    -> CircGone(e.ev.id) /\ e.ev.st = (IF tc[e.ev.id].st = "BUILT" THEN "CLOSED" ELSE "FAILED")
                              /\ e.ev.path = tc[e.ev.id].path
    [] e.a = "StreamNew"   -> StreamNew(e.ev.id, e.ev.st, e.ev.tgt, e.ev.src)
    [] e.a = "SentConnect" -> SentConnect(e.ev.id, e.ev.circ) /\ e.ev.tgt = ts[e.ev.id].tgt
    [] e.a = "Remap"       -> Remap(e.ev.id, e.ev.tgt) /\ e.ev.circ = ts[e.ev.id].circ
    [] e.a = "Succeeded"   -> Succeeded(e.ev.id) /\ e.ev.circ = ts[e.ev.id].circ /\ e.ev.tgt = ts[e.ev.id].tgt
    [] e.a = "Detached"    -> Detached(e.ev.id) /\ e.ev.circ = ts[e.ev.id].circ
    [] e.a = "StreamGone"  -> StreamGone(e.ev.id, e.ev.st, e.z) /\ e.ev.circ = ts[e.ev.id].circ
    [] e.a = "LateClosed"  -> LateClosed(e.ev.id) /\ e.ev.tgt = ts[e.ev.id].tgt
    [] e.a = "Snapshot"    -> Snapshot
    [] e.a = "AddListener" -> AddListener(e.l)
    [] e.a = "UnlistenC"   -> UnlistenC(e.l, e.id)
    [] e.a = "UnlistenS"   -> UnlistenS(e.l, e.id)
    [] e.a = "WaitBuilt"   -> WaitBuilt(e.x, e.id)
    [] e.a = "WaitClosed"  -> WaitClosed(e.x, e.id)
    [] e.a = "CloseC"      -> CloseC(e.x, e.id)
    [] e.a = "CloseS"      -> CloseS(e.x, e.id)
    [] e.a = "Build"       -> Build(e.x, e.id, e.pur, e.bf)
    [] e.a = "TimedBuild"  -> TimedBuild(e.x, e.id, e.pur, e.bf)
    [] e.a = "BuildTimeout" -> BuildTimeout(e.x)
    [] e.a = "Ack"         -> Ack
    [] e.a = "Nack"        -> Nack
    [] OTHER -> FALSE

TInit == Init /\ tid \in 1..Len(Traces) /\ l = 1
TNext ==
  /\ l <= Len(Traces[tid].steps)
  /\ LET e == Traces[tid].steps[l] IN
       Step(e) /\ (Mode = "full" => ObsOK(e.obs)) /\ (Mode # "env" => PropsOK)
  /\ l' = l + 1 /\ UNCHANGED tid
TSpec == TInit /\ [][TNext]_<<vars, tid, l>>
Progress == TLCSet(2, [TLCGet(2) EXCEPT ![tid] = IF l - 1 > @ THEN l - 1 ELSE @])
Post == \A t \in 1..Len(Traces) : PrintT(<<"TRACE", t, TLCGet(2)[t], Len(Traces[t].steps), {}>>)
====
