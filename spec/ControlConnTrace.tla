-------------------------- MODULE ControlConnTrace --------------------------
(* Trace validation for ControlConn: every recorded execution of the real  *)
(* TorControlProtocol (one per line of the ndjson file) must be a behaviour *)
(* of ControlConn whose projected mechanism state equals what was observed  *)
(* after every step, with every property invariant true in every state.     *)
EXTENDS ControlConn, Json, IOUtils, TLCExt

\* the file is read once (a plain definition would be re-evaluated, i.e. the file re-parsed, at every use)
ASSUME TLCSet(3, ndJsonDeserialize(IOEnv.TRACE_FILE))
Traces == TLCGet(3)
ASSUME TLCSet(4, IF "VMODE" \in DOMAIN IOEnv THEN IOEnv.VMODE ELSE "full")
Mode   == TLCGet(4)

VARIABLES tid, l
tvars == <<vars, tid, l>>

ASSUME TLCSet(2, [t \in 1..Len(Traces) |-> 0])

Ids(w) == [i \in 1..Len(w) |-> w[i][1]]

ObsOK(o) ==
  /\ Ids(o.wrote) = m'.wroteNow
  /\ \A i \in 1..Len(o.wrote) : o.wrote[i][1] \in 1..Len(m'.cmds)
                                  => SeqToSet(o.wrote[i][2]) = m'.cmds[o.wrote[i][1]].names
  /\ o.res = m'.res
  /\ o.cb = m'.cbNow
  /\ o.dl = m'.dlNow
  /\ o.dn = m'.dn
  /\ o.exc = m'.exc

PropsOK ==
  /\ WireFIFO' /\ OneOutstanding' /\ Outcomes' /\ InProgressCb' /\ NoExc'
  /\ Deliveries' /\ SetEventsExact' /\ RegAgree' /\ DiscNotified'
  /\ \A c \in 1..NCmds : m.res[c].k # "p" => m'.res[c] = m.res[c]
  /\ m.lost => m'.wire = m.wire

Step(e) ==
  CASE e.a = "Submit" /\ e.k = "na" -> (IF e.acc THEN Submit("plain") ELSE SubmitRefused)   \* see ControlConn.tla, NonAscii
    [] e.a = "Submit"     -> Submit(e.k) /\ (("ret" \in DOMAIN e) => e.ret \in CbReturns)
    [] e.a = "GiveUp"     -> GiveUp(e.c)
    [] e.a = "AddL"       -> AddL(e.l, e.n)
    [] e.a = "RemL"       -> RemL(e.l, e.n)
    [] e.a = "WhenDisc"   -> WhenDisc(e.k)
    [] e.a = "BeginReply" -> BeginReply(e.cls, e.sh)
    [] e.a = "BeginEvent" -> BeginEvent(e.n, e.sh)
    [] e.a = "Line"       -> Line
    [] e.a = "Lose"       -> Lose
    [] OTHER -> FALSE

TInit == Init /\ tid \in 1..Len(Traces) /\ l = 1

TNext ==
  /\ l <= Len(Traces[tid].steps)
  /\ LET e == Traces[tid].steps[l] IN
       /\ Step(e)
       /\ (Mode = "full" => ObsOK(e.obs))
       /\ (Mode # "env" => PropsOK)
  /\ l' = l + 1
  /\ UNCHANGED tid

TSpec == TInit /\ [][TNext]_tvars

Progress == TLCSet(2, [TLCGet(2) EXCEPT ![tid] = IF l - 1 > @ THEN l - 1 ELSE @])

Post == \A t \in 1..Len(Traces) :
          PrintT(<<"TRACE", t, TLCGet(2)[t], Len(Traces[t].steps), {}>>)
=============================================================================
