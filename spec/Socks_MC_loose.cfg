SPECIFICATION Spec
CONSTANTS
  Codes <- CodesQuick
  MaxApp = 2
  MaxChunk = 30
  Loose = TRUE
INVARIANT NoAppBeforeSuccess
INVARIANT RelayedAll
INVARIANT Prompt
INVARIANT DoneOnce
INVARIANT Outcome
INVARIANT RequestAfterMethod
INVARIANT FailureReported
INVARIANT MethodFailureReported
INVARIANT NoExc
