SPECIFICATION Spec
CONSTANTS
  Names <- N2
  AddrsOf <- A2
  Offsets <- Off5
  MaxNow = 14
INVARIANT FindIffLive
INVARIANT FindsLatestAddr
INVARIANT AddrKeys
INVARIANT Counts
