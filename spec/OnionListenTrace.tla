---- MODULE OnionListenTrace ----
EXTENDS OnionListen, Json, IOUtils, TLCExt
ASSUME TLCSet(3, ndJsonDeserialize(IOEnv.TRACE_FILE))
Traces == TLCGet(3)
ASSUME TLCSet(4, IF "VMODE" \in DOMAIN IOEnv THEN IOEnv.VMODE ELSE "full")
Mode == TLCGet(4)
VARIABLES tid, l
ASSUME TLCSet(2, [t \in 1..Len(Traces) |-> 0])
\* o.open: local listeners open: sequence of <<port, interface>>;  o.asked: mappings named in creation commands
ObsOK(o) ==
  /\ (Len(o.open) > 0) = localOpen' /\ Len(o.open) <= 1
  /\ \A i \in 1..Len(o.open) : o.open[i][2] = "127.0.0.1"
  /\ (Len(o.asked) > 0) = asked' /\ Len(o.asked) <= 1
  \* exact mapping: the public port is forwarded to 127.0.0.1:<the port that was bound>
  /\ \A i \in 1..Len(o.asked) : o.asked[i] = <<Traces[tid].public, "127.0.0.1", o.bound>>
  /\ o.result = result' /\ o.nres = nres'
  /\ (result' = "err" => o.why = why')
  /\ (result' = "port" => o.host = Traces[tid].hostname /\ o.hostport = Traces[tid].public)
  /\ ~o.exc
PropsOK == LoopbackOnly' /\ AskedAfterBind' /\ ResolvesLast' /\ NoLeak' /\ FailureIsInjected' /\ Once' /\ StopCloses'
Step(e) ==
  CASE e.a = "Foreign" -> (IF "kind" \in DOMAIN e /\ e.kind = "fetchfail" THEN FetchFailed ELSE Foreign) [] e.a = "Refuse" -> Refuse [] e.a = "Listen" -> Listen [] e.a = "ConfigReady" -> ConfigReady [] e.a = "CreateReply" -> CreateReply
    [] e.a = "Disconnect" -> Disconnect [] e.a = "WaitOver" -> WaitOver [] e.a = "Cancel" -> Cancel [] e.a = "UnsubAck" -> UnsubAck [] e.a = "StopListening" -> StopListening [] e.a = "StartListening" -> StartListening [] e.a = "Relisten" -> (IF "busy" \in DOMAIN e /\ e.busy THEN RelistenBusy ELSE Relisten)
    [] OTHER -> FALSE
TInit == Init /\ tid \in 1..Len(Traces) /\ l = 1 /\ fault = Traces[tid].fault /\ cfgNow = Traces[tid].cfgnow /\ others = Traces[tid].others
TNext ==
  /\ l <= Len(Traces[tid].steps)
  /\ LET e == Traces[tid].steps[l] IN Step(e) /\ (Mode = "full" => ObsOK(e.obs)) /\ (Mode # "env" => PropsOK)
  /\ l' = l + 1 /\ UNCHANGED tid
TSpec == TInit /\ [][TNext]_<<vars, tid, l>>
Progress == TLCSet(2, [TLCGet(2) EXCEPT ![tid] = IF l - 1 > @ THEN l - 1 ELSE @])
Post == \A t \in 1..Len(Traces) : PrintT(<<"TRACE", t, TLCGet(2)[t], Len(Traces[t].steps), {}>>)
====
