SPECIFICATION Spec
CONSTANTS
  Relays <- R2
  Nicks <- N1
  IpSet = {1}
  V6Set = {0,1}
  BwSet = {0,1}
  MaxDocs = 2
INVARIANT ViewIsDoc
INVARIANT SerialsDistinct
PROPERTY IdentityKept
