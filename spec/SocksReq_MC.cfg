SPECIFICATION GridSpec
CONSTANTS Dev = {}
INVARIANT RoundTrip
