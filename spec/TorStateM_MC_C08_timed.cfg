SPECIFICATION Spec
CONSTANTS
  CircIds <- C1
  StreamIds <- S0
  Relays <- R1
  MaxPath = 1
  MaxPre = 0
  MaxEv = 5
  Listeners <- L0
  MaxUser = 4
  Waits <- W2
  Timed = TRUE
INVARIANT TypeOK
INVARIANT CircuitsMatch
INVARIANT NoExc
INVARIANT WaitsOnce
INVARIANT BuiltWaits
INVARIANT CloseWaits
INVARIANT TimedBuilds
