SPECIFICATION Spec
CONSTANTS
  Scalars <- Sc1
  Lists <- Li1
  SVals <- SV
  Elems <- EL
  MaxLen = 2
  MaxOps = 3
  MaxSaves = 2
  MaxEvents = 1
  Dev <- DEmpt
  Pairs2 = FALSE
  NoDef <- NoDef0
INVARIANT BareAfterAck
