------------------------------ MODULE OnionUp ------------------------------
(***************************************************************************)
(* Waiting for an onion service's descriptor upload (onion.py              *)
(* _await_descriptor_upload inside _add_ephemeral_service).  Property C15. *)
(*                                                                         *)
(* Two services - "me" (the one being created) and "other" (another        *)
(* service of the same Tor) - upload descriptors to the same directories.  *)
(* Tor announces UPLOAD(s, d), then UPLOADED(s, d) or FAILED(s, d), in any  *)
(* interleaving; the reply to ADD_ONION (which tells us our own address)    *)
(* arrives before, between or after these events.                           *)
(***************************************************************************)
EXTENDS Naturals, FiniteSets, TLC

CONSTANTS Dirs,     \* hidden-service directories
          Dev       \* named deviations recorded as known findings

Svcs == {"me", "other"}

VARIABLES
  mode,      \* "first": complete on the first confirmed upload; "all": await every attempted upload
  up,        \* Tor's truth: [Svcs -> [Dirs -> "none" | "started" | "ok" | "failed"]]
  replied,   \* the ADD_ONION reply has been processed (our address is known)
  early,     \* own uploads Tor announced before the client could know the service's address (not attributable)
  hostEarly, \* the service's address is known before the reply: a filesystem service on a directory Tor has used
             \* before, whose hostname file is already there (a restart with the same keys)
  \* mechanism
  attempted, confirmed, failed,
  wait,      \* the upload wait: "p" | "ok" | "err"
  nfired,    \* times the wait was resolved
  subscribed,
  created,   \* the creation result as seen by the caller: "p" | "ok" | "err"
  lost,      \* the control connection is gone
  refused,   \* Tor refused the creating command (ADD_ONION / SETCONF): there is no service, nothing will be uploaded
  devUsed

vars == <<mode, up, replied, early, hostEarly, attempted, confirmed, failed, wait, nfired, subscribed, created, refused, lost, devUsed>>

Init ==
  /\ mode \in {"first", "all"}
  /\ up = [s \in Svcs |-> [d \in Dirs |-> "none"]]
  /\ replied = FALSE /\ early = {} /\ hostEarly \in BOOLEAN
  /\ attempted = {} /\ confirmed = {} /\ failed = {}
  /\ wait = "p" /\ nfired = 0 /\ subscribed = TRUE /\ created = "p" /\ refused = FALSE /\ lost = FALSE /\ devUsed = {}

AddrKnown == replied \/ hostEarly      \* the client can attribute HS_DESC events to the service

\* creation completes when both the reply and the upload wait are in
Created(w, r) == IF w = "err" /\ r THEN "err" ELSE IF w = "ok" /\ r THEN "ok" ELSE "p"

Resolve(w) == /\ wait' = w /\ nfired' = nfired + 1 /\ subscribed' = FALSE
              /\ created' = Created(w, replied)
Keep == UNCHANGED <<wait, nfired, subscribed, created>>

Reply ==
  /\ ~lost /\ ~replied /\ replied' = TRUE
  /\ created' = Created(wait, TRUE)
  /\ UNCHANGED <<mode, up, early, hostEarly, attempted, confirmed, failed, wait, nfired, subscribed, refused, lost, devUsed>>

\* Tor refuses the creating command: the creation fails, and - "on success and on failure alike" - the event
\* subscription goes (nobody will wait for a descriptor of a service that does not exist)
Refuse ==
  /\ ~lost /\ ~replied /\ replied' = TRUE /\ refused' = TRUE
  /\ \A d \in Dirs : up["me"][d] = "none"        \* (Tor announces no upload for a service it does not create)
  /\ created' = "err" /\ subscribed' = FALSE
  /\ UNCHANGED <<mode, up, early, hostEarly, attempted, confirmed, failed, wait, nfired, lost, devUsed>>

Upload(s, d) ==
  /\ ~lost /\ up[s][d] = "none" /\ ~(refused /\ s = "me") /\ UNCHANGED <<refused, lost>>
  /\ up' = [up EXCEPT ![s][d] = "started"]
  /\ IF subscribed /\ s = "me" /\ AddrKnown
     THEN attempted' = attempted \cup {d} /\ UNCHANGED early
     ELSE UNCHANGED attempted /\ early' = IF s = "me" /\ ~AddrKnown THEN early \cup {d} ELSE early
  /\ Keep /\ UNCHANGED <<mode, replied, hostEarly, confirmed, failed, devUsed>>

AllIn(c, f, a) == Cardinality(c) + Cardinality(f) = Cardinality(a)

\* (again: Tor reports the outcome of an upload a second time - a v3 service publishes two descriptors, and one directory
\* may be responsible for both: the same handling, and what was counted once is not counted twice)
UploadedEv(s, d, again) ==
  /\ ~lost /\ up[s][d] = (IF again THEN "ok" ELSE "started") /\ UNCHANGED <<refused, lost>>
  /\ up' = [up EXCEPT ![s][d] = "ok"]
  /\ LET mine  == s = "me"
         \* known finding: the event is matched by directory only, so another service's upload counts
         takes == subscribed /\ d \in attempted /\ (mine \/ "c15_foreign_uploaded" \in Dev)
     IN IF takes
        THEN /\ confirmed' = confirmed \cup {d}
             /\ devUsed' = IF ~mine THEN devUsed \cup {"c15_foreign_uploaded"} ELSE devUsed
             /\ IF wait = "p" /\ (mode = "first" \/ AllIn(confirmed \cup {d}, failed, attempted))
                THEN Resolve("ok") ELSE Keep
        ELSE UNCHANGED <<confirmed, devUsed>> /\ Keep
  /\ UNCHANGED <<mode, replied, early, hostEarly, attempted, failed>>

Uploaded(s, d) == UploadedEv(s, d, FALSE)
UploadedAgain(s, d) == UploadedEv(s, d, TRUE)

FailedEv(s, d, again) ==
  /\ ~lost /\ up[s][d] = (IF again THEN "failed" ELSE "started") /\ UNCHANGED <<refused, lost>>
  /\ up' = [up EXCEPT ![s][d] = "failed"]
  /\ IF subscribed /\ s = "me" /\ AddrKnown /\ d \in attempted     \* (only a directory whose upload the client saw start counts)
     THEN /\ failed' = failed \cup {d}
          /\ IF wait = "p" /\ (failed \cup {d}) = attempted THEN Resolve("err")
             ELSE IF wait = "p" /\ mode = "all" /\ confirmed # {} /\ AllIn(confirmed, failed \cup {d}, attempted) THEN Resolve("ok")
             ELSE Keep
     ELSE UNCHANGED failed /\ Keep
  /\ UNCHANGED <<mode, replied, early, hostEarly, attempted, confirmed, devUsed>>

Failed(s, d) == FailedEv(s, d, FALSE)
FailedAgain(s, d) == FailedEv(s, d, TRUE)

\* Tor reports a failed *fetch* of a service's descriptor (somebody using this Tor looked the address up before it
\* was published) with the same event word: FAILED s d for a directory no upload was announced to.  It is not an
\* upload and decides nothing.
FetchFailed(s, d) ==
  /\ ~lost /\ up[s][d] = "none"
  /\ UNCHANGED vars

\* Tor's other reports about a service's descriptor - it was built (CREATED, before its uploads are announced and again
\* whenever Tor rebuilds it), somebody's fetch of it was started, answered or ignored (REQUESTED, RECEIVED, IGNORE) - are
\* not uploads either: they decide nothing and what has been counted so far stands.
Notices == {"CREATED", "REQUESTED", "RECEIVED", "IGNORE"}
Notice(s, d, k) ==
  /\ ~lost /\ k \in Notices
  /\ UNCHANGED vars

\* The control connection is lost.  No event will arrive any more: a wait that is still pending fails (also in await-all
\* mode with some uploads confirmed and others outstanding - nobody can tell how those end), and so does a creation
\* whose command is unanswered; the subscription goes with the rest.
Lose ==
  /\ ~lost /\ lost' = TRUE
  /\ wait' = (IF wait = "p" THEN "err" ELSE wait) /\ nfired' = (IF wait = "p" THEN nfired + 1 ELSE nfired)
  /\ subscribed' = FALSE /\ created' = (IF created = "p" THEN "err" ELSE created)
  /\ UNCHANGED <<mode, up, replied, early, hostEarly, attempted, confirmed, failed, refused, devUsed>>

Next ==
  \/ Reply \/ Refuse \/ Lose
  \/ \E s \in Svcs, d \in Dirs : Upload(s, d) \/ Uploaded(s, d) \/ Failed(s, d) \/ FetchFailed(s, d)
  \/ \E s \in Svcs, d \in Dirs, k \in Notices : Notice(s, d, k)
  \/ \E s \in Svcs, d \in Dirs : UploadedAgain(s, d) \/ FailedAgain(s, d)

Spec == Init /\ [][Next]_vars

----------------------------------------------------------------------------
Ok(P) == P \/ devUsed # {}
OwnOk == {d \in Dirs : up["me"][d] = "ok"}
OwnStarted == {d \in Dirs : up["me"][d] = "started"}
OwnFailed == {d \in Dirs : up["me"][d] = "failed"}
OwnAnnounced == {d \in Dirs : up["me"][d] # "none"}
Regular == early = {}     \* Tor acknowledged the service before announcing its uploads (what Tor does)

\* C15: completes only after a successful upload of THIS service
OnlyAfterOwnSuccess == Ok(wait = "ok" => OwnOk # {})
\* C15: exactly once, and the subscription is gone afterwards (success and failure alike)
AtMostOnce == nfired <= 1 /\ (wait = "p" <=> nfired = 0)
Unsubscribed == (wait # "p") => ~subscribed
\* C15 (progress at quiescence, regular histories): while the wait is pending something is still
\* outstanding; i.e. it completes as soon as it may and fails as soon as every attempted upload failed
PendingMeansOutstanding ==
  Ok((Regular /\ AddrKnown /\ wait = "p" /\ ~refused) =>
        /\ (OwnAnnounced = {} \/ OwnStarted # {})
        /\ (mode = "first" => OwnOk = {}))
\* C15 (action properties): at the moment of completion in await-all mode nothing is outstanding;
\* at the moment of failure every attempted own upload has failed
AwaitAllAtCompletion ==
  [][(wait = "p" /\ wait' = "ok" /\ mode = "all" /\ Regular /\ devUsed' = {}) => OwnStarted' = {} /\ OwnOk' # {}]_vars
FailsOnlyIfAllFailed ==
  [][(wait = "p" /\ wait' = "err" /\ ~lost' /\ Regular /\ devUsed' = {}) => OwnOk' = {} /\ OwnStarted' = {}]_vars
\* a failure is the failure of at least one upload of this service (in every history)
FailureNeedsFailedUpload == [][(wait = "p" /\ wait' = "err" /\ ~lost') => OwnFailed' # {}]_vars
\* events of the other service never decide the outcome
ForeignInert ==
  [][\A d \in Dirs : (up'["other"] # up["other"] /\ devUsed' = {}) => wait' = wait]_vars
Creation == IF lost THEN created # "p" ELSE created = (IF refused THEN "err" ELSE Created(wait, replied))
\* the subscription is gone after a failure of any kind
GoneAfterFailure == created = "err" => ~subscribed
TypeOK == wait \in {"p", "ok", "err"}
=============================================================================
