SPECIFICATION LiveSpec
CONSTANTS
  MaxCmd = 2
  MaxEv = 0
  MaxLop = 1
  MaxPost = 2
  MaxDisc = 1
  ReplyShapes <- RS_two
  EventShapes <- ES_two
  EvNames <- N1
  Listeners <- L0
  SubmitKinds <- K5
  Loose = FALSE
  Dev <- NoDev
INVARIANT FewEnough
PROPERTY EveryCommandResolves
PROPERTY QueueDrains
CHECK_DEADLOCK FALSE
