SPECIFICATION TSpec
CONSTANTS
  CircIds <- TC
  StreamIds <- TS
  Relays <- TR
  MaxPath = 3
  MaxPre = 0
  MaxEv = 0
  Listeners <- TL
  MaxUser = 0
  Waits <- TW
  Timed = TRUE
CONSTRAINT Progress
POSTCONDITION Post
CHECK_DEADLOCK FALSE
