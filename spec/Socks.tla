------------------------------- MODULE Socks -------------------------------
(***************************************************************************)
(* txtorcon's SOCKS5 client (socks.py: _SocksMachine, _TorSocksProtocol,   *)
(* TorSocksEndpoint, resolve/resolve_ptr).  Property C05 and the wire      *)
(* order part of C06.                                                      *)
(*                                                                         *)
(* The server's byte stream is laid out as                                 *)
(*   [ method reply: 2 ][ request reply: rlen ][ application bytes: napp ] *)
(* and is handed over in arbitrary chunks (Deliver(n)), with a disconnect  *)
(* possible at every chunk boundary.  Byte *content* is checked by the     *)
(* harness (it compares what the application got with the corresponding    *)
(* slice of the stream); the model tracks counts and positions.            *)
(***************************************************************************)
EXTENDS Naturals, Integers, Sequences, TLC

CONSTANTS
  Codes,    \* reply codes explored (subset of 0..255)
  MaxApp,   \* application bytes after the reply: 0..MaxApp
  MaxChunk, \* largest chunk explored by Next (model checking only)
  Loose     \* TRUE: a failure may be reported anywhere between "code byte seen" and "reply complete"

VARIABLES
  scen,      \* the scenario: [req, mrep, rver, code, atyp, alen, napp, failAt]
  sync,      \* the transport reports the loss of the connection from inside loseConnection() (in-memory transports, tests)
  delivered, \* bytes of the stream handed to the client so far
  gone,      \* the transport has been disconnected
  \* mechanism (socks.py)
  st,        \* automat state
  buf,       \* len(self._data): buffered, not yet consumed
  sentReq,   \* the request has been written (after the method-selection message)
  app,       \* application protocol created
  appN,      \* bytes relayed to the application
  appW,      \* bytes the application wrote (must appear on the same transport)
  done,      \* [k |-> "p"|"ok"|"err", ek |-> error kind, n |-> times fired]
  closed,    \* client called loseConnection
  appLost,   \* application protocol told about the disconnect
  exc        \* an exception escaped dataReceived

vars == <<scen, sync, delivered, gone, st, buf, sentReq, app, appN, appW, done, closed, appLost, exc>>

RLen(s) == CASE s.atyp = "v4" -> 10 [] s.atyp = "v6" -> 22 [] s.atyp = "dom" -> 7 + s.alen [] OTHER -> 10
ReplyEnd(s) == 2 + RLen(s)
Total(s) == ReplyEnd(s) + s.napp

Scenarios ==
  { s \in [req : {"CONNECT", "RESOLVE", "RESOLVE_PTR"}, mrep : {"ok", "badver", "badmethod", "method2"},
           rver : BOOLEAN, code : Codes, atyp : {"v4", "v6", "dom", "unk"}, alen : {1, 3},
           napp : 0..MaxApp, failAt : 2..22] :
      /\ (s.req = "CONNECT" => s.atyp # "dom")          \* Tor never answers CONNECT with a name
      /\ (s.req # "CONNECT" => s.napp = 0)              \* nothing follows a resolve answer
      /\ (s.atyp # "dom" => s.alen = 1)
      /\ (IF Loose THEN s.failAt <= (IF RLen(s) > 8 THEN RLen(s) ELSE 8) ELSE s.failAt = 8) }

Success(s) == s.mrep = "ok" /\ s.rver /\ s.code = 0 /\ s.atyp # "unk"

\* error kind the statement requires for a failure reply
ErrKind(s) ==
  IF s.mrep # "ok" \/ ~s.rver THEN "socks"
  ELSE IF s.code \in 1..8 THEN "c" \o ToString(s.code)
  ELSE IF s.code # 0 THEN "g" \o ToString(s.code)
  ELSE "socks"

Pending == [k |-> "p", ek |-> "", n |-> 0]
FireM(d, k, ek) == IF d.n = 0 THEN [k |-> k, ek |-> ek, n |-> 1] ELSE [d EXCEPT !.n = @ + 1]

InitRest ==
  /\ delivered = 0 /\ gone = FALSE
  /\ st = "sent_version" /\ buf = 0 /\ sentReq = FALSE
  /\ app = FALSE /\ appN = 0 /\ appW = 0 /\ done = Pending
  /\ closed = FALSE /\ appLost = FALSE /\ exc = FALSE

Init == scen \in Scenarios /\ sync \in BOOLEAN /\ InitRest

(* One pass of the machine over the buffer: r is a record of the mechanism  *)
(* variables; Process is iterated until nothing changes (the code re-enters *)
(* got_data after a state change when bytes are still buffered).            *)
Rec == [st |-> st, buf |-> buf, sentReq |-> sentReq, app |-> app, appN |-> appN, done |-> done,
        closed |-> closed, exc |-> exc]

Fail(r, ek) == [r EXCEPT !.st = "abort", !.done = FireM(@, "err", ek), !.closed = TRUE]

RECURSIVE Process(_)
Process(r) ==
  LET s == scen IN
  CASE r.st = "sent_version" ->
         IF r.buf < 2 THEN r
         ELSE LET r1 == [r EXCEPT !.buf = @ - 2] IN
              IF s.mrep = "ok" THEN Process([r1 EXCEPT !.st = "sent_request", !.sentReq = TRUE])
              ELSE IF s.mrep = "method2"
                   THEN \* offered only "no authentication"; the code trips an assertion, Twisted drops the connection
                        [r1 EXCEPT !.st = "abort", !.exc = TRUE, !.done = FireM(@, "err", "socks"), !.closed = TRUE]
              ELSE Fail(r1, "socks")
    [] r.st = "sent_request" ->
         IF ~Success(s)
         THEN IF r.buf >= s.failAt THEN Fail(r, ErrKind(s)) ELSE r
         ELSE IF r.buf < RLen(s) \/ r.buf < 8 THEN r
         ELSE LET r1 == [r EXCEPT !.buf = @ - RLen(s)] IN
              IF s.req = "CONNECT"
              THEN Process([r1 EXCEPT !.st = "relaying", !.app = TRUE, !.done = FireM(@, "ok", "proto")])
              ELSE [r1 EXCEPT !.st = "done", !.done = FireM(@, "ok", "val")]
    [] r.st = "relaying" -> [r EXCEPT !.appN = @ + r.buf, !.buf = 0]
    [] OTHER -> r

Deliver(n) ==
  /\ ~gone /\ n >= 1 /\ delivered + n <= Total(scen)
  /\ st \notin {"done"} \/ scen.req = "CONNECT"
  /\ LET r == Process([Rec EXCEPT !.buf = @ + n]) IN
       /\ st' = r.st /\ buf' = r.buf /\ sentReq' = r.sentReq /\ app' = r.app /\ appN' = r.appN
       /\ done' = r.done /\ closed' = r.closed
       /\ exc' = r.exc
       \* an exception out of dataReceived makes Twisted drop the connection
       \* ... and so does, on a transport that reports the loss from inside loseConnection (sync), the client's own hanging up
       /\ gone' = ((r.exc /\ ~exc) \/ (sync /\ r.closed /\ ~closed))
  /\ delivered' = delivered + n
  /\ UNCHANGED <<scen, sync, appW, appLost>>

\* As Deliver(n), where these n bytes complete a successful CONNECT and the application's "connected" callback,
\* while it runs, makes k more bytes arrive (it writes its first request over an in-memory transport whose peer
\* answers at once, or it re-enters the event loop): they follow whatever the success segment already carried.
\* The harness compares the application's bytes with the stream, so the order counts.
DeliverNested(n, k) ==
  /\ ~gone /\ n >= 1 /\ k >= 1 /\ delivered + n + k <= Total(scen)
  /\ scen.req = "CONNECT" /\ done.k = "p"
  /\ LET r == Process([Rec EXCEPT !.buf = @ + n]) IN
       /\ r.done.k = "ok" /\ r.st = "relaying" /\ ~r.exc
       /\ st' = r.st /\ buf' = r.buf /\ sentReq' = r.sentReq /\ app' = r.app /\ appN' = r.appN + k
       /\ done' = r.done /\ closed' = r.closed /\ exc' = r.exc /\ gone' = gone
  /\ delivered' = delivered + n + k
  /\ UNCHANGED <<scen, sync, appW, appLost>>

\* As Deliver(n) while relaying, where the application's dataReceived, while it is handed these n bytes, makes k more
\* bytes arrive (it answers over an in-memory or loop-back transport whose peer replies at once): they are the
\* application's too, after the first n, and none waits for a later segment.
DeliverReentrant(n, k) ==
  /\ ~gone /\ n >= 1 /\ k >= 1 /\ delivered + n + k <= Total(scen)
  /\ st = "relaying" /\ app /\ buf = 0
  /\ appN' = appN + n + k /\ delivered' = delivered + n + k
  /\ UNCHANGED <<scen, sync, gone, st, buf, sentReq, app, appW, done, closed, appLost, exc>>

Loss ==
  /\ gone' = TRUE
  /\ CASE st = "sent_version" -> st' = "unconnected" /\ done' = FireM(done, "err", "socks") /\ UNCHANGED appLost
       [] st = "sent_request" -> st' = "abort" /\ done' = FireM(done, "err", "socks") /\ UNCHANGED appLost
       [] st = "relaying"     -> st' = "done" /\ appLost' = TRUE /\ UNCHANGED done
       [] OTHER               -> UNCHANGED <<st, done, appLost>>
  /\ UNCHANGED <<scen, sync, delivered, buf, sentReq, app, appN, appW, closed, exc>>
Disconnect == ~gone /\ Loss

AppWrite ==
  /\ app /\ ~gone
  /\ appW' = appW + 1
  /\ UNCHANGED <<scen, sync, delivered, gone, st, buf, sentReq, app, appN, done, closed, appLost, exc>>

\* the application asks for a graceful close of its transport; what still arrives before the connection
\* is gone is relayed all the same
AppClose ==
  /\ app /\ ~gone
  /\ IF sync THEN Loss ELSE UNCHANGED vars        \* (a transport that reports the loss at once: the connection is gone with that)

Next ==
  \/ AppClose
  \/ \E n \in 1..MaxChunk : Deliver(n)
  \/ \E n \in 1..MaxChunk, k \in 1..MaxApp : DeliverNested(n, k)
  \/ \E n \in 1..MaxApp, k \in 1..MaxApp : DeliverReentrant(n, k)
  \/ Disconnect
  \/ AppWrite /\ appW < 1

Spec == Init /\ [][Next]_vars

----------------------------------------------------------------------------
CompleteSuccess == Success(scen) /\ delivered >= ReplyEnd(scen)

\* C05: the application exists / has data only after a complete success reply
NoAppBeforeSuccess == (app \/ appN > 0) => (CompleteSuccess /\ scen.req = "CONNECT")
\* C05: it has received exactly the bytes that follow the reply - none withheld
RelayedAll == app => appN = delivered - ReplyEnd(scen)
\* C05: nothing is held back: a complete success reply has been acted upon
Prompt == (CompleteSuccess /\ ~(gone /\ done.k = "err")) => done.k = "ok" /\ (scen.req = "CONNECT" => app)
\* C05: exactly once, with the right outcome
DoneOnce == done.n <= 1
Outcome ==
  /\ done.k = "ok" => CompleteSuccess /\ done.ek = (IF scen.req = "CONNECT" THEN "proto" ELSE "val")
  /\ done.k = "err" => ~CompleteSuccess \/ gone
  /\ (done.k = "err" /\ ~gone /\ scen.mrep # "method2") => done.ek = ErrKind(scen)
  /\ (gone /\ ~CompleteSuccess) => done.k = "err"
\* C06 (wire order): the request is written only after the server selected "no authentication"
RequestAfterMethod == sentReq => (scen.mrep = "ok" /\ delivered >= 2)
\* a failure reply that is completely delivered has been reported
FailureReported ==
  (~Success(scen) /\ scen.mrep = "ok" /\ delivered >= 2 + (IF RLen(scen) > 8 THEN RLen(scen) ELSE 8)) => done.k = "err"
MethodFailureReported == (scen.mrep # "ok" /\ delivered >= 2) => done.k = "err"
NoExc == exc => scen.mrep = "method2"

\* reachability probes
ProbeCoalesced == ~(app /\ appN > 0 /\ delivered = Total(scen) /\ buf = 0 /\ scen.napp = MaxApp)
=============================================================================
