SPECIFICATION TSpec
CONSTANTS
  MaxCmd = 0
  MaxEv = 0
  MaxLop = 0
  MaxPost = 0
  MaxDisc = 0
  ReplyShapes = {}
  EventShapes = {}
  EvNames = {"EVA", "EVB"}
  Listeners = {"ok1", "ok2", "self", "other", "raise", "adder", "late", "killer"}
  SubmitKinds = {}
  Loose = TRUE
  Dev = {}
CONSTRAINT Progress
POSTCONDITION Post
CHECK_DEADLOCK FALSE
