SPECIFICATION GSpec
CONSTANTS
  MaxCmd = 4
  MaxEv = 2
  MaxLop = 2
  MaxPost = 3
  MaxDisc = 2
  ReplyShapes <- RS_big
  EventShapes <- ES_big
  EvNames <- N2
  Listeners <- L5
  SubmitKinds <- K5
  Loose = FALSE
  Dev <- NoDev
  AllowLose = TRUE
