SPECIFICATION Spec
CONSTANTS
  Circs <- C2
  Streams <- S1
  Conns <- K0
  Ports <- P1
  MaxSteps = 7
  MaxSubs = 3
INVARIANT TypeOK
INVARIANT ConsultedInOrder
INVARIANT ToldMatches
INVARIANT OneDecision
INVARIANT NothingForExit
INVARIANT Answered
