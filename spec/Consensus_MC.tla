---- MODULE Consensus_MC ----
EXTENDS Consensus
R2 == <<"ra", "rb">>
R3 == <<"ra", "rb", "rc">>
R4 == <<"ra", "rb", "rc", "rd">>
N2 == {"n1", "n2"}
N1 == {"n1"}
====
