------------------------------- MODULE Config -------------------------------
(***************************************************************************)
(* txtorcon's configuration abstraction (torconfig.py TorConfig): the view *)
(* built when attaching to a running Tor, pending changes (attribute       *)
(* assignment and in-place list edits), save() as one SETCONF, Tor's       *)
(* acknowledgement or rejection, and CONF_CHANGED events caused by other   *)
(* controllers.  Properties C10 and C11.                                   *)
(*                                                                         *)
(* Values are abstract tokens in "wire" form (what SETCONF / GETCONF       *)
(* carry); the harness maps them to concrete values of each option's       *)
(* declared type and back, and checks the Python type of what reads        *)
(* return.  Tor's store (tor) applies SETCONF semantics: every option      *)
(* named in one SETCONF is replaced as a whole by the values given for it, *)
(* an empty value clears it, unnamed options are untouched.                *)
(***************************************************************************)
EXTENDS Naturals, Sequences, FiniteSets, TLC

CONSTANTS
  Scalars, Lists,   \* option names
  SVals,            \* values a scalar option may be given
  Elems,            \* elements a list option may hold
  MaxLen,           \* longest list
  MaxOps,           \* bound on user edits        (model checking only)
  MaxSaves,         \* bound on saves
  MaxEvents,        \* bound on CONF_CHANGED events
  Dev,              \* named deviations recorded as known findings ({} = what the property needs)
  Pairs2,           \* another controller's SETCONF may change two options at once (FALSE: one; a bound for model checking)
  NoDef             \* list options Tor has no built-in default for (unset = no values): e.g. TransPort, unlike SocksPort

Options == Scalars \cup Lists
Def(o) == IF o \in Scalars THEN <<"dflt">> ELSE IF o \in NoDef THEN <<>> ELSE <<"d1">>     \* Tor's built-in default for an unset option

VARIABLES
  phase,    \* "start" | "attached"
  tor,      \* Tor's store: option -> sequence of values (<<>> = unset, i.e. default in force)
  view,     \* what reading the attribute returns, as a sequence of values
  tracked,  \* list option -> its value is a tracked list (in-place edits mark it unsaved)
  pend,     \* options with pending changes, in first-change order       (TorConfig.unsaved)
  pval,     \* their pending values
  shared,   \* the pending value is the very object reads return (in-place edit) rather than an assigned one
  inflight, \* the saves awaiting Tor's reply, oldest first: [pairs |-> the SETCONF's pairs, sent |-> <<option, pending value>>
            \* for every option the save carried]; only the oldest one is on the wire (one command at a time)
  busy,     \* some save is awaiting its reply
  wire,     \* SETCONF commands written in this step: a sequence of pair-sequences
  \* ghost: what the user means
  intent,   \* option -> the configuration the user has asked for
  dirty,    \* options changed since the last acknowledged save
  after,    \* (unused; kept so that recorded replay files keep their shape)
  devUsed,  \* deviations that made this behaviour differ from the ideal one
  evq,      \* Tor's change announcements (CONF_CHANGED events) not yet delivered to us, in the order Tor applied
            \* the changes - other controllers' and our own SETCONFs alike; one event = a sequence of
            \* <<option, values>>, one entry per option the SETCONF changed
  cnt

vars == <<phase, tor, view, tracked, pend, pval, shared, inflight, busy, wire, intent, dirty, after, devUsed, evq, cnt>>

SeqToSet(s) == {s[i] : i \in 1..Len(s)}
AppendNew(s, x) == IF x \in SeqToSet(s) THEN s ELSE Append(s, x)
RemoveAt(s, i) == SubSeq(s, 1, i - 1) \o SubSeq(s, i + 1, Len(s))
InsertAt(s, i, x) == SubSeq(s, 1, i - 1) \o <<x>> \o SubSeq(s, i, Len(s))
Remove1(s, x) == LET i == CHOOSE k \in 1..Len(s) : s[k] = x /\ \A j \in 1..(k-1) : s[j] # x IN RemoveAt(s, i)

Init ==
  /\ phase = "start"
  /\ tor \in [Options -> {<<>>}]
  /\ view = [o \in Options |-> <<>>] /\ tracked = [o \in Lists |-> TRUE]
  /\ pend = <<>> /\ pval = [o \in Options |-> <<>>] /\ shared = [o \in Options |-> FALSE]
  /\ inflight = <<>> /\ busy = FALSE /\ wire = <<>>
  /\ intent = [o \in Options |-> <<>>] /\ dirty = <<>> /\ after = {}
  /\ devUsed = {} /\ evq = <<>> /\ cnt = [ops |-> 0, saves |-> 0, evs |-> 0]

SStores == {<<>>} \cup {<<v>> : v \in SVals}
LStores == UNION {[1..k -> Elems] : k \in 0..MaxLen}
Stores == {[o \in Options |-> IF o \in Scalars THEN fs[o] ELSE fl[o]] : fs \in [Scalars -> SStores], fl \in [Lists -> LStores]}

\* the running Tor's configuration at the moment we attach; bootstrap builds the view
Attach(store) ==
  /\ phase = "start"
  /\ \A o \in Scalars : Len(store[o]) <= 1 /\ SeqToSet(store[o]) \subseteq SVals
  /\ \A o \in Lists : SeqToSet(store[o]) \subseteq Elems
  /\ phase' = "attached" /\ tor' = store
  /\ view' = [o \in Options |-> IF store[o] = <<>> THEN Def(o) ELSE store[o]]
  /\ intent' = [o \in Options |-> IF store[o] = <<>> THEN Def(o) ELSE store[o]]
  /\ wire' = <<>>
  /\ UNCHANGED <<tracked, pend, pval, shared, inflight, busy, dirty, after, devUsed, evq, cnt>>

Touch(o) ==
  /\ dirty' = AppendNew(dirty, o)
  /\ after' = after
  /\ cnt' = [cnt EXCEPT !.ops = @ + 1]

\* config.Option = value   (value: a scalar's validated value, or a whole new list)
Assign(o, v) ==
  /\ phase = "attached" /\ o \in Options
  /\ IF o \in Scalars THEN Len(v) = 1 /\ v[1] \in SVals ELSE SeqToSet(v) \subseteq Elems /\ Len(v) <= MaxLen
  /\ pend' = AppendNew(pend, o) /\ pval' = [pval EXCEPT ![o] = v] /\ shared' = [shared EXCEPT ![o] = FALSE]
  /\ intent' = [intent EXCEPT ![o] = v]
  /\ Touch(o) /\ wire' = <<>>
  /\ UNCHANGED <<phase, tor, view, tracked, inflight, busy, devUsed, evq>>

\* cfg.o = cfg.o2: a list option is assigned what reading another list option returned.  The two stay independent:
\* o gets that value, and a later edit of either is an edit of that one alone.
AssignFrom(o, o2) ==
  /\ phase = "attached" /\ o \in Lists /\ o2 \in Lists /\ o # o2
  /\ LET v == view[o2] IN
       /\ pend' = AppendNew(pend, o) /\ pval' = [pval EXCEPT ![o] = v] /\ shared' = [shared EXCEPT ![o] = FALSE]
       /\ intent' = [intent EXCEPT ![o] = v]
  /\ Touch(o) /\ wire' = <<>>
  /\ UNCHANGED <<phase, tor, view, tracked, inflight, busy, devUsed, evq>>

\* in-place edit of the list that reading the attribute returns.  Reads return the running
\* configuration, so when the option has a pending value that is another object (an assignment,
\* or an in-place edit overtaken by a change event) the edited list becomes the pending value:
\* the user's latest read-edit is what save sends.
ListOp(o, newv) ==
  /\ phase = "attached" /\ o \in Lists
  /\ SeqToSet(newv) \subseteq Elems \cup SeqToSet(view[o]) /\ Len(newv) <= MaxLen + 1
  /\ newv # view[o]
  /\ view' = [view EXCEPT ![o] = newv]
  /\ IF tracked[o]
     THEN /\ pend' = AppendNew(pend, o) /\ pval' = [pval EXCEPT ![o] = newv] /\ shared' = [shared EXCEPT ![o] = TRUE]
     ELSE UNCHANGED <<pend, pval, shared>>       \* an untracked list: the edit goes unnoticed
  /\ intent' = [intent EXCEPT ![o] = newv]
  /\ Touch(o) /\ wire' = <<>>
  /\ UNCHANGED <<phase, tor, tracked, inflight, busy, devUsed, evq>>

\* results of the six wrapped list operations on list l
EditsOf(l) ==
  {Append(l, x) : x \in Elems} \cup {l \o <<x, y>> : x \in Elems, y \in Elems}
  \cup {InsertAt(l, i, x) : i \in 1..(Len(l) + 1), x \in Elems}
  \cup {RemoveAt(l, i) : i \in 1..Len(l)}
  \cup {[l EXCEPT ![i] = x] : i \in 1..Len(l), x \in Elems}

\* save(): one SETCONF with exactly the pending changes
PairsFor(o, v, ideal) ==
  IF o \in Scalars THEN << <<o, v[1]>> >>
  ELSE IF v = <<>> THEN (IF ideal THEN << <<o, "">> >> ELSE <<>>)     \* an emptied list is a request to clear the option
  ELSE LET w == SelectSeq(v, LAMBDA x : x # "DEFAULT")     \* (the marker left by c11_default_marker is never sent)
       IN [i \in 1..Len(w) |-> <<o, w[i]>>]
RECURSIVE PairsAll(_, _, _)
PairsAll(ps, vals, ideal) == IF ps = <<>> THEN <<>> ELSE PairsFor(Head(ps), vals[Head(ps)], ideal) \o PairsAll(Tail(ps), vals, ideal)

\* save().  The specification of the ideal mechanism covers one save at a time; with the as-is mechanism a
\* second save() may be made while an earlier one awaits its reply (its SETCONF - naming everything that is
\* pending then, the earlier save's options included - is queued behind it).
SaveSend ==
  /\ phase = "attached" /\ (~busy \/ "c10_edits_during_save_lost" \in Dev)
  /\ IF pend = <<>>
     THEN wire' = <<>> /\ UNCHANGED <<view, inflight, busy, after, devUsed>>
     ELSE LET asis  == PairsAll(pend, pval, "c10_emptied_list_not_cleared" \notin Dev)
              ideal == PairsAll(pend, pval, TRUE)
          IN /\ wire' = IF inflight = <<>> THEN << asis >> ELSE <<>>
             /\ inflight' = Append(inflight, [pairs |-> asis, sent |-> [i \in 1..Len(pend) |-> <<pend[i], pval[pend[i]]>>]])
             /\ busy' = TRUE /\ after' = after
             /\ view' = [o \in Options |-> IF o \in SeqToSet(pend) THEN pval[o] ELSE view[o]]
             \* a save made while another one is in flight is outside the ideal mechanism's specification: from
             \* there on the behaviour is the as-is mechanism's (conformance is still checked step by step)
             /\ devUsed' = devUsed \cup (IF asis # ideal THEN {"c10_emptied_list_not_cleared"} ELSE {})
                                    \cup (IF busy THEN {"c10_edits_during_save_lost"} ELSE {})
  /\ cnt' = [cnt EXCEPT !.saves = @ + 1]
  /\ UNCHANGED <<phase, tor, tracked, pend, pval, shared, intent, dirty, evq>>

\* Tor applies the SETCONF
ValuesFor(ps, o) == LET f == SelectSeq(ps, LAMBDA p : p[1] = o) IN
                    IF Len(f) = 1 /\ f[1][2] = "" THEN <<>> ELSE [i \in 1..Len(f) |-> f[i][2]]
Named(ps) == {ps[i][1] : i \in 1..Len(ps)}
\* ... and announces every option whose value changed, to every controller, us included (the echo)
RECURSIVE Echo(_, _, _)
Echo(all, ps, seen) == IF ps = <<>> THEN <<>>
                       ELSE LET o == Head(ps)[1] IN
                            IF o \in seen \/ ValuesFor(all, o) = tor[o] THEN Echo(all, Tail(ps), seen \cup {o})
                            ELSE << <<o, ValuesFor(all, o)>> >> \o Echo(all, Tail(ps), seen \cup {o})
\* option o with its present pending value is taken care of once the oldest save is acknowledged: that save
\* carried this value, and no later save in flight carries another one
Settled(o) ==
  /\ \E i \in 1..Len(Head(inflight).sent) : Head(inflight).sent[i] = <<o, pval[o]>>
  /\ \A k \in 2..Len(inflight) : \A i \in 1..Len(inflight[k].sent) :
        inflight[k].sent[i][1] = o => inflight[k].sent[i][2] = pval[o]
NextWire == IF Len(inflight) > 1 THEN << inflight[2].pairs >> ELSE <<>>
SaveAck ==
  /\ busy
  /\ LET h == Head(inflight).pairs IN
       /\ tor' = [o \in Options |-> IF o \in Named(h) THEN ValuesFor(h, o) ELSE tor[o]]
       /\ evq' = IF Echo(h, h, {}) = <<>> THEN evq ELSE Append(evq, Echo(h, h, {}))
  /\ LET idealkeep == SelectSeq(pend, LAMBDA o : ~Settled(o))
         keep == IF "c10_edits_during_save_lost" \in Dev THEN <<>> ELSE idealkeep
     IN /\ pend' = keep
        /\ devUsed' = IF keep # idealkeep THEN devUsed \cup {"c10_edits_during_save_lost"} ELSE devUsed
  /\ dirty' = SelectSeq(dirty, LAMBDA o : ~Settled(o))
  /\ inflight' = Tail(inflight) /\ busy' = (Len(inflight) > 1) /\ wire' = NextWire
  \* ideal mechanism: an option that is taken care of reads as the value Tor now has - also when, while the save was in
  \* flight, the list was edited in place and the option then assigned the saved value again (the edit shows in the view,
  \* the assignment does not; without this the view would keep the overwritten edit)
  /\ view' = IF "c10_edits_during_save_lost" \in Dev THEN view
             ELSE [o \in Options |-> IF o \in SeqToSet(pend) /\ Settled(o) THEN pval[o] ELSE view[o]]
  /\ UNCHANGED <<phase, tracked, pval, shared, intent, after, cnt>>

SaveReject ==
  /\ busy
  /\ inflight' = Tail(inflight) /\ busy' = (Len(inflight) > 1) /\ wire' = NextWire
  /\ UNCHANGED <<phase, tor, view, tracked, pend, pval, shared, intent, dirty, after, devUsed, evq, cnt>>

\* another controller's SETCONF changes one or more options: Tor applies it and queues one announcement
\* chs: sequence of <<option, values>> over distinct options, each a real change
OkVals(o, vals) == IF o \in Scalars THEN Len(vals) <= 1 /\ SeqToSet(vals) \subseteq SVals
                   ELSE SeqToSet(vals) \subseteq Elems /\ Len(vals) <= MaxLen
InFlight(o) == \E k \in 1..Len(inflight) : o \in Named(inflight[k].pairs)
OtherChange(chs) ==
  /\ phase = "attached" /\ Len(chs) >= 1
  /\ \A i \in 1..Len(chs) : chs[i][1] \in Options /\ OkVals(chs[i][1], chs[i][2]) /\ chs[i][2] # tor[chs[i][1]]
  /\ \A i, j \in 1..Len(chs) : i # j => chs[i][1] # chs[j][1]
  /\ LET new(o) == (CHOOSE i \in 1..Len(chs) : chs[i][1] = o)
         named == {chs[i][1] : i \in 1..Len(chs)}
     IN /\ tor' = [o \in Options |-> IF o \in named THEN chs[new(o)][2] ELSE tor[o]]
        \* a local change that the user has not saved (or whose save is in flight) still stands
        /\ intent' = [o \in Options |-> IF o \in named /\ o \notin SeqToSet(dirty) /\ ~InFlight(o)
                                         THEN (IF chs[new(o)][2] = <<>> THEN Def(o) ELSE chs[new(o)][2]) ELSE intent[o]]
  /\ evq' = Append(evq, chs)
  /\ cnt' = [cnt EXCEPT !.evs = @ + 1] /\ wire' = <<>>
  /\ UNCHANGED <<phase, view, tracked, pend, pval, shared, inflight, busy, dirty, after, devUsed>>

\* the oldest announcement reaches us (at any time: also while a save is in flight, or with local changes
\* pending); the handler takes its options one by one.  Reads return the announced value at once; a pending
\* local change of the option stays pending (save will send it) but is no longer the object reads return.
\* known finding: an option announced without a value (back to its default) becomes the literal marker (list
\* options) or - for scalar types whose parser rejects the marker - keeps the stale value
ApplyOne(vw, du, o, vals) ==
  LET ideal == IF vals = <<>> THEN Def(o) ELSE vals
      asis  == IF vals = <<>> /\ "c11_default_marker" \in Dev
               THEN (IF o \in Lists THEN {<<"DEFAULT">>} ELSE {vw[o], ideal})
               ELSE {ideal}
  IN {<<[vw EXCEPT ![o] = nv], IF nv # ideal THEN du \cup {"c11_default_marker"} ELSE du>> : nv \in asis}
RECURSIVE ApplyAll(_, _, _)
ApplyAll(vw, du, ps) == IF ps = <<>> THEN {<<vw, du>>}
                        ELSE UNION {ApplyAll(r[1], r[2], Tail(ps)) : r \in ApplyOne(vw, du, Head(ps)[1], Head(ps)[2])}
Deliver ==
  /\ phase = "attached" /\ evq # <<>>
  /\ \E r \in ApplyAll(view, devUsed, Head(evq)) : view' = r[1] /\ devUsed' = r[2]
  /\ shared' = [o \in Options |-> IF \E i \in 1..Len(Head(evq)) : Head(evq)[i][1] = o THEN FALSE ELSE shared[o]]
  /\ evq' = Tail(evq) /\ wire' = <<>>
  /\ UNCHANGED <<phase, tor, tracked, pend, pval, inflight, busy, intent, dirty, after, cnt>>

\* the announcements another controller can cause: one option, or two options in one SETCONF
Changes == {<< <<o, v>> >> : o \in Options, v \in SStores \cup LStores}
           \cup (IF Pairs2 THEN {<< <<o1, v1>>, <<o2, v2>> >> : o1 \in Options, o2 \in Options, v1 \in SStores \cup LStores, v2 \in SStores \cup LStores}
                  ELSE {})

Next ==
  \/ \E store \in Stores : Attach(store)
  \/ \E o \in Scalars, v \in SVals : Assign(o, <<v>>) /\ cnt.ops < MaxOps
  \/ \E o \in Lists, v \in UNION {[1..k -> Elems] : k \in 0..MaxLen} : Assign(o, v) /\ cnt.ops < MaxOps
  \/ \E o \in Lists : \E nv \in EditsOf(view[o]) : ListOp(o, nv) /\ cnt.ops < MaxOps
  \/ \E o \in Lists, o2 \in Lists : AssignFrom(o, o2) /\ cnt.ops < MaxOps
  \/ SaveSend /\ cnt.saves < MaxSaves
  \/ SaveAck \/ SaveReject
  \/ \E chs \in Changes : OtherChange(chs) /\ cnt.evs < MaxEvents
  \/ Deliver

Spec == Init /\ [][Next]_vars

----------------------------------------------------------------------------
Ok(P) == P \/ devUsed # {}
\* C10: nothing reaches Tor except through save (wire is written by SaveSend only: by construction of the
\* actions; the trace specification checks it against the real transport at every step)
\* C10: what is pending is exactly what the user changed since the last acknowledged save
PendingExact == Ok(phase = "attached" /\ ~busy => SeqToSet(pend) = SeqToSet(dirty) /\ \A o \in SeqToSet(pend) : pval[o] = intent[o])
\* C10: after an acknowledged save with nothing edited meanwhile (and every announcement delivered): Tor has
\* what the user asked for, reads agree
AfterAck == Ok((phase = "attached" /\ ~busy /\ dirty = <<>> /\ evq = <<>>) =>
                  \A o \in Options : /\ (view[o] = intent[o] \/ (intent[o] = <<>> /\ tor[o] = <<>> /\ view[o] = Def(o)))
                                      /\ (tor[o] = intent[o] \/ (tor[o] = <<>> /\ intent[o] \in {<<>>, Def(o)})))
\* (a cleared option reads as empty until Tor's announcement arrives, as its default afterwards)
\* C11: once Tor's announcements have been delivered, reading an option without local pending change returns
\* Tor's value (intent follows other controllers' changes too, so AfterAck is the same claim for a clean view)
ViewIsTor == Ok((phase = "attached" /\ ~busy /\ evq = <<>>) =>
                  \A o \in Options : o \notin SeqToSet(pend) => (view[o] = tor[o] \/ (tor[o] = <<>> /\ view[o] = Def(o))))
\* C11: list-valued options stay tracked lists
Tracked == \A o \in Lists : tracked[o]
TypeOK == phase \in {"start", "attached"}
=============================================================================
