SPECIFICATION GSpec
CONSTANTS
  Names <- N2
  AddrsOf <- A2
  Offsets <- Off
  MaxNow = 40
