SPECIFICATION TSpec
CONSTANT MaxSteps = 1000000
CONSTRAINT Progress2
POSTCONDITION Post
CHECK_DEADLOCK FALSE
