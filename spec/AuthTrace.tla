---- MODULE AuthTrace ----
EXTENDS Auth, Json, IOUtils, TLCExt
ASSUME TLCSet(3, ndJsonDeserialize(IOEnv.TRACE_FILE))
Traces == TLCGet(3)
ASSUME TLCSet(4, IF "VMODE" \in DOMAIN IOEnv THEN IOEnv.VMODE ELSE "full")
Mode == TLCGet(4)
VARIABLES tid, l
ASSUME TLCSet(2, [t \in 1..Len(Traces) |-> 0])
SeqSet(s) == {s[i] : i \in 1..Len(s)}
ObsOK(o) == o.wire = wire' /\ o.pwCalls = pwCalls' /\ o.ready = ready' /\ o.nready = nready' /\ ~o.exc
PropsOK == OnlyAuthBeforeAccept' /\ MethodPreference' /\ PasswordOnlyWithoutCookie' /\ PasswordAtMostOnce' /\ ProofDiscipline'
           /\ ReadyOnce' /\ ReadyOkOnlyAfterBootstrap' /\ Decided'
Step(e) ==
  CASE e.a = "Start" -> Start
    [] e.a = "ReplyPI" -> ReplyPI(e.k)
    [] e.a = "PwResolve" -> PwResolve(e.ok)
    [] e.a = "ReplyChallenge" -> ReplyChallenge(e.k)
    [] e.a = "ReplyAuth" -> ReplyAuth(e.ok)
    [] e.a = "ReplyQuery" -> ReplyQuery(e.ok)
    [] e.a = "Disconnect" -> Disconnect(IF "clean" \in DOMAIN e THEN e.clean ELSE FALSE)
    [] OTHER -> FALSE
TInit == /\ Init /\ tid \in 1..Len(Traces) /\ l = 1
         /\ scen = [methods |-> SeqSet(Traces[tid].scen.methods), cookie |-> Traces[tid].scen.cookie, pw |-> Traces[tid].scen.pw]
TNext ==
  /\ l <= Len(Traces[tid].steps)
  /\ LET e == Traces[tid].steps[l] IN Step(e) /\ (Mode = "full" => ObsOK(e.obs)) /\ (Mode # "env" => PropsOK)
  /\ l' = l + 1 /\ UNCHANGED tid
TSpec == TInit /\ [][TNext]_<<vars, tid, l>>
Progress == TLCSet(2, [TLCGet(2) EXCEPT ![tid] = IF l - 1 > @ THEN l - 1 ELSE @])
Post == \A t \in 1..Len(Traces) : PrintT(<<"TRACE", t, TLCGet(2)[t], Len(Traces[t].steps), {}>>)
====
