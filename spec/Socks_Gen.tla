------------------------------ MODULE Socks_Gen ------------------------------
EXTENDS Socks_MC
VARIABLE hist
GInit == Init /\ hist = <<>>
GNext ==
  \/ \E n \in 1..MaxChunk : Deliver(n) /\ hist' = Append(hist, [a |-> "Deliver", n |-> n])
  \/ \E n \in 1..MaxChunk, k \in 1..MaxApp : DeliverNested(n, k) /\ hist' = Append(hist, [a |-> "DeliverNested", n |-> n, k |-> k])
  \/ \E n \in 1..MaxApp, k \in 1..MaxApp : DeliverReentrant(n, k) /\ hist' = Append(hist, [a |-> "DeliverReentrant", n |-> n, k |-> k])
  \/ Disconnect /\ hist' = Append(hist, [a |-> "Disconnect"])
  \/ AppWrite /\ appW < 2 /\ hist' = Append(hist, [a |-> "AppWrite"])
GSpec == GInit /\ [][GNext]_<<vars, hist>>
=============================================================================
