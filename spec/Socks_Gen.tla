------------------------------ MODULE Socks_Gen ------------------------------
EXTENDS Socks_MC
VARIABLE hist
GInit == Init /\ hist = <<>>
GNext ==
  \/ \E n \in 1..MaxChunk : Deliver(n) /\ hist' = Append(hist, [a |-> "Deliver", n |-> n])
  \/ Disconnect /\ hist' = Append(hist, [a |-> "Disconnect"])
  \/ AppWrite /\ appW < 2 /\ hist' = Append(hist, [a |-> "AppWrite"])
GSpec == GInit /\ [][GNext]_<<vars, hist>>
=============================================================================
