#!/bin/sh
# usage: run_all.sh quick|thorough   -- runs every check once, prints timing and exit status
TIER=${1:-quick}
for p in C01 C02 C03 C04 C05 C06 C07 C08 C09 C10 C11 C12 C13 C14 C15 C16 C17 C18 C19 C20; do
  s=$(date +%s)
  ./check $p --tier $TIER > /tmp/run_all_$p.log 2>&1
  rc=$?
  e=$(date +%s)
  echo "$p rc=$rc $((e-s))s $(grep RESULT /tmp/run_all_$p.log | tail -1)"
  grep -c "VIOLATION\|BROKEN" /tmp/run_all_$p.log | sed "s/^/   alarms: /"
done
